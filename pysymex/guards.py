"""
Guard layer of pysymex: hash-consed Boolean DAG over finite-domain input atoms, with simulation
signatures (bit-parallel truth values on N patterns) that *propose* equalities / infeasibility and
an incremental SAT solver (z3 QF_FD) that *decides* every proposal and every verdict.

Nothing here knows about Python values; see values.py.
"""

import random
import time

import z3

# ---------------------------------------------------------------------------------------------


class Inconclusive(Exception):
    """Raised when a verdict query returns unknown / the engine cannot decide."""


class Node(object):
    __slots__ = ("id", "kind", "a", "b", "var", "val", "sig", "lit", "rep", "neg", "known", "imp", "supp", "tags")

    def __repr__(self):
        return "<g%d %s>" % (self.id, self.kind)


class Var(object):
    """Finite-domain input variable; domain = list of arbitrary (hashable) Python labels."""

    __slots__ = ("name", "domain", "atoms", "index")

    def __init__(self, name, domain):
        self.name = name
        self.domain = list(domain)
        self.atoms = []
        self.index = {v: i for i, v in enumerate(self.domain)}

    def __repr__(self):
        return "<Var %s %r>" % (self.name, self.domain)


class Stats(object):
    def __init__(self):
        self.q = {}  # kind -> {result -> count}
        self.hist = {}  # kind -> [<2ms, <20ms, <200ms, >=200ms, total s]
        self.time = 0.0
        self.merges = 0
        self.false_candidates = 0
        self.product_witnesses = 0
        self.undecided = 0
        self.tag_hits = 0
        self.pattern_extensions = 0
        self.samples = []

    def note(self, kind, result, dt):
        d = self.q.setdefault(kind, {})
        d[result] = d.get(result, 0) + 1
        self.time += dt
        h = self.hist.setdefault(kind, [0, 0, 0, 0, 0.0])
        h[0 if dt < 0.002 else 1 if dt < 0.02 else 2 if dt < 0.2 else 3] += 1
        h[4] += dt

    def total(self):
        return sum(sum(d.values()) for d in self.q.values())

    def count(self, result):
        return sum(d.get(result, 0) for d in self.q.values())

    def as_dict(self):
        return {
            "by_kind": self.q,
            "time_hist": {k: v[:4] + [round(v[4], 2)] for k, v in self.hist.items()},
            "total": self.total(),
            "unknown": self.count("unknown"),
            "solver_time_s": round(self.time, 3),
            "merges_proved": self.merges,
            "false_candidates": self.false_candidates,
            "product_witnesses": self.product_witnesses,
            "undecided_feasibility": self.undecided,
            "partition_tag_hits": self.tag_hits,
            "pattern_extensions": self.pattern_extensions,
        }

    def add(self, other):
        """merge a dict produced by as_dict() (from a worker)"""
        for k, d in other["by_kind"].items():
            dd = self.q.setdefault(k, {})
            for r, c in d.items():
                dd[r] = dd.get(r, 0) + c
        self.time += other["solver_time_s"]
        self.merges += other["merges_proved"]
        self.false_candidates += other["false_candidates"]
        self.product_witnesses += other.get("product_witnesses", 0)
        self.undecided += other.get("undecided_feasibility", 0)
        self.tag_hits += other.get("partition_tag_hits", 0)
        self.pattern_extensions += other["pattern_extensions"]


class GuardMgr(object):
    def __init__(self, seed=0, npat=2048, merge_timeout_ms=10000, verdict_timeout_ms=120000):
        self.rng = random.Random(seed)
        self.npat = npat
        self.ALL = (1 << npat) - 1
        self.nodes = []
        self.vars = []
        self.varmap = {}
        self.hc = {}  # (a.id, b.id) -> node    (AND nodes)
        self.reps = {}  # sig -> [nodes]
        self.stats = Stats()
        self.merge_timeout_ms = merge_timeout_ms
        self.verdict_timeout_ms = verdict_timeout_ms
        import os
        kind = os.environ.get("VERIF_SOLVER", "QF_FD")
        self.solver_kind = kind
        if kind == "QF_FD":
            self.solver = z3.SolverFor("QF_FD")
            self.solver.set("random_seed", seed % 1000003)
        elif kind == "smt":
            self.solver = z3.Solver()
            self.solver.set("random_seed", seed % 1000003)
        elif kind == "simple":
            self.solver = z3.SimpleSolver()
        else:
            self.solver = z3.SolverFor(kind)
        self.solver.set("timeout", merge_timeout_ms)
        for kv in os.environ.get("VERIF_SOLVER_OPTS", "").split(","):
            if "=" in kv:
                k, v = kv.split("=", 1)
                self.solver.set(k, int(v) if v.lstrip("-").isdigit() else (v == "true" if v in ("true", "false") else v))
        self.assumption = None  # guard asserted by restrict()
        self._assumption_raw = []
        self.pending_models = []
        self._bcount = 0
        self._alit = {}
        self._pid = 0
        self.part_total = {}
        self.part_all = {}
        self.tagrep = {}
        self.part_blocks = {}
        self._in_total = False
        self.verbose = True
        self.deadline = None
        self.min_pop = 1
        self.refine_patterns = False
        self.dc_limit = 96
        self.trace = False
        self.sweeping = True
        self.FALSE = self._mk("const", None, None)
        self.FALSE.sig = 0
        self.TRUE = self._mk("const", None, None)
        self.TRUE.sig = self.ALL
        self.FALSE.neg = self.TRUE
        self.TRUE.neg = self.FALSE
        self.FALSE.lit = z3.BoolVal(False)
        self.TRUE.lit = z3.BoolVal(True)
        self.FALSE.known = "false"
        self.TRUE.known = "true"
        self.reps[0] = [self.FALSE]
        self.reps[self.ALL] = [self.TRUE]

    # -- construction -------------------------------------------------------------------------

    def _mk(self, kind, a, b):
        n = Node()
        n.id = len(self.nodes)
        n.kind = kind
        n.a = a
        n.b = b
        n.var = None
        n.val = None
        n.sig = None
        n.lit = None
        n.rep = None
        n.neg = None
        n.known = None  # None | "sat" (proved satisfiable) | "false" | "true"
        n.imp = None  # dict var -> value index implied by this node (sound, incomplete)
        n.supp = 0  # bitmask of variable indices the node syntactically depends on
        n.tags = None  # {partition id: (bitmask of block indices, exact)}: node => OR of blocks
        self.nodes.append(n)
        return n

    def new_var(self, name, domain):
        if name in self.varmap:
            raise ValueError("duplicate var " + name)
        v = Var(name, domain)
        d = len(v.domain)
        # random column
        cols = [0] * d
        rr = self.rng
        for k in range(self.npat):
            cols[rr.randrange(d)] |= 1 << k
        lits = []
        for i, lab in enumerate(v.domain):
            n = self._mk("atom", None, None)
            n.var = v
            n.val = i
            n.sig = cols[i]
            n.lit = z3.Bool("%s=%s" % (name, i))
            n.imp = {v: i}
            n.supp = 1 << len(self.vars)
            lits.append(n.lit)
            v.atoms.append(n)
            if d == 1:
                n.rep = self.TRUE
            else:
                self.reps.setdefault(n.sig, []).append(n)
        # exactly-one
        if d > 8:
            self.solver.add(z3.Or(*lits))
            self.solver.add(z3.AtMost(*(lits + [1])))
        elif d > 1:
            self.solver.add(z3.Or(*lits))
            for i in range(d):
                for j in range(i + 1, d):
                    self.solver.add(z3.Or(z3.Not(lits[i]), z3.Not(lits[j])))
        else:
            self.solver.add(lits[0])
        self.vars.append(v)
        self.varmap[name] = v
        return v

    def atom(self, var, label):
        return self.find(var.atoms[var.index[label]])

    def atom_opt(self, var, label):
        """atom, or FALSE when the label is not in the (restricted) domain"""
        i = var.index.get(label)
        if i is None:
            return self.FALSE
        return self.find(var.atoms[i])

    def find(self, n):
        r = n.rep
        if r is None:
            return n
        # path compression
        while r.rep is not None:
            r = r.rep
        n.rep = r
        return r

    def NOT(self, a):
        a = self.find(a)
        n = self.find(a.neg) if a.neg is not None else None
        if n is not None and n.kind == "const":
            return n
        if a.tags:
            for pid, (sx, ex) in a.tags.items():
                if ex and self.is_total(pid):
                    comp = self.part_all[pid] & ~sx
                    if not comp:
                        a.neg = self.FALSE
                        if n is not None:
                            n.rep = self.FALSE
                        return self.FALSE
                    rep = self.tagrep.get((pid, comp))
                    if rep is not None:
                        rep = self.find(rep)
                        if n is not None and n is not rep and rep is not a:
                            # both denote the complement block set: same function; the younger
                            # node is merged into the older one (no cycles)
                            if rep.id < n.id:
                                n.rep = rep
                            else:
                                rep.rep = n
                                if n.tags is None:
                                    n.tags = {}
                                n.tags[pid] = (comp, True)
                                rep = n
                        if rep is not a:
                            a.neg = rep
                            if rep.neg is None:
                                rep.neg = a
                            self.stats.tag_hits += 1
                            return rep
                    else:
                        if n is None:
                            n = self._mk("not", a, None)
                            n.sig = self.ALL ^ a.sig
                            n.supp = a.supp
                            n.neg = a
                            a.neg = n
                        if n.tags is None:
                            n.tags = {}
                        n.tags[pid] = (comp, True)
                        self.tagrep[(pid, comp)] = n
                        return n
                    break
        if n is not None:
            return n
        n = self._mk("not", a, None)
        n.sig = self.ALL ^ a.sig
        n.supp = a.supp
        n.neg = a
        a.neg = n
        # implied literals: not(and(not p, not q)) = p or q  =>  common implied literals
        if a.kind == "and":
            p, q = a.a, a.b
            if p.kind == "not" and q.kind == "not":
                ip, iq = p.a.imp, q.a.imp
                if ip and iq:
                    com = None
                    for k, v in (ip.items() if len(ip) <= len(iq) else iq.items()):
                        if (iq if len(ip) <= len(iq) else ip).get(k) == v:
                            if com is None:
                                com = {}
                            com[k] = v
                    n.imp = com
        elif a.kind == "atom" and len(a.var.domain) == 2:
            n.imp = {a.var: 1 - a.val}
        return n

    def AND(self, a, b):
        a = self.find(a)
        b = self.find(b)
        if a is b:
            return a
        F = self.FALSE
        T = self.TRUE
        if a is F or b is F:
            return F
        if a is T:
            return b
        if b is T:
            return a
        if a.neg is not None and self.find(a.neg) is b:
            return F
        if a.id > b.id:
            a, b = b, a
        key = (a.id, b.id)
        n = self.hc.get(key)
        if n is not None:
            return self.find(n)
        # different atoms of one variable are exclusive
        if a.kind == "atom" and b.kind == "atom" and a.var is b.var:
            self.hc[key] = F
            return F
        ta, tb = a.tags, b.tags
        tags = None
        new_exact = None
        if ta and tb:
            tags = dict(ta)
            for pid, (sb, eb) in tb.items():
                x = ta.get(pid)
                if x is None:
                    tags[pid] = (sb, False)
                    continue
                sa, ea = x
                inter = sa & sb
                if not inter:
                    self.hc[key] = F
                    return F
                if ea and eb:
                    if inter == sa:
                        self.hc[key] = a
                        return a
                    if inter == sb:
                        self.hc[key] = b
                        return b
                    rep = self.tagrep.get((pid, inter))
                    if rep is not None:
                        rep = self.find(rep)
                        self.hc[key] = rep
                        self.stats.tag_hits += 1
                        return rep
                    new_exact = (pid, inter)
                tags[pid] = (inter, ea and eb)
            for pid in ta:
                if pid not in tb:
                    tags[pid] = (ta[pid][0], False)
        elif ta or tb:
            tags = {pid: (sx, False) for pid, (sx, ex) in (ta or tb).items()}
        if tags and len(tags) > 12:
            self._evict(tags, 12)
        ia, ib = a.imp, b.imp
        imp = None
        if ia and ib:
            if len(ia) > len(ib):
                ia, ib = ib, ia
            grow = False
            for k, v in ia.items():
                w = ib.get(k)
                if w is None:
                    grow = True
                elif w != v:
                    self.hc[key] = F
                    return F
            if grow:
                imp = dict(ib)
                imp.update(ia)
            else:
                imp = ib  # shared, never mutated
        else:
            imp = ia or ib
        n = self._mk("and", a, b)
        n.sig = a.sig & b.sig
        n.imp = imp
        n.supp = a.supp | b.supp
        n.tags = tags
        if new_exact is not None:
            self.tagrep[new_exact] = n
        self.hc[key] = n
        return n

    def simp_under(self, g, c, depth=5):
        """g' with c => (g' == g): occurrences of c / ~c / atoms decided by c's implied literals
        are replaced by constants down to a bounded depth"""
        g = self.find(g)
        c = self.find(c)
        if g.kind == "const" or c.kind == "const":
            return g
        cneg = self.find(c.neg) if c.neg is not None else None
        cimp = c.imp
        # conjuncts of c (bounded)
        conj = {c.id}
        stack = [(c, 0)]
        while stack:
            x, d = stack.pop()
            if x.kind == "and" and d < 6:
                for y in (self.find(x.a), self.find(x.b)):
                    conj.add(y.id)
                    stack.append((y, d + 1))
        memo = {}

        def rec(x, d):
            x = self.find(x)
            if x.id in conj:
                return self.TRUE
            if x.kind == "const":
                return x
            if x.neg is not None and self.find(x.neg).id in conj:
                return self.FALSE
            if x.kind == "atom":
                if cimp:
                    w = cimp.get(x.var)
                    if w is not None:
                        return self.TRUE if w == x.val else self.FALSE
                return x
            if d == 0:
                return x
            r = memo.get(x.id)
            if r is not None:
                return r
            if x.kind == "not":
                a = rec(x.a, d - 1)
                r = x if a is self.find(x.a) else self.NOT(a)
            else:
                a = rec(x.a, d - 1)
                b = rec(x.b, d - 1)
                r = x if (a is self.find(x.a) and b is self.find(x.b)) else self.AND(a, b)
            memo[x.id] = r
            return r

        return rec(g, depth)

    def AND_S(self, c, g):
        """c & g, with g simplified under c"""
        c = self.find(c)
        if c.kind == "const":
            return self.AND(c, g)
        return self.AND(c, self.simp_under(g, c))

    def OR(self, a, b):
        a = self.find(a)
        b = self.find(b)
        # (p & x) | (~p & x)  ==  x
        if a.kind == "and" and b.kind == "and":
            aa, ab, ba, bb = self.find(a.a), self.find(a.b), self.find(b.a), self.find(b.b)
            for x, p, y, q in ((aa, ab, ba, bb), (aa, ab, bb, ba), (ab, aa, ba, bb), (ab, aa, bb, ba)):
                if x is y and p.neg is not None and self.find(p.neg) is q:
                    return x
        if a.tags and b.tags:
            for pid, (sa, ea) in a.tags.items():
                x = b.tags.get(pid)
                if x is not None and ea and x[1]:
                    un = sa | x[0]
                    if un == sa:
                        return a
                    if un == x[0]:
                        return b
                    rep = self.tagrep.get((pid, un))
                    if rep is not None:
                        self.stats.tag_hits += 1
                        return self.find(rep)
                    if self.part_total.get(pid) and un == self.part_all[pid]:
                        return self.TRUE
        r = self.NOT(self.AND(self.NOT(a), self.NOT(b)))
        if r.kind == "const":
            return r
        if r.known is None and r.sig == 0 and (a.known == "sat" or b.known == "sat"):
            r.known = "sat"
        if a.tags and b.tags:
            tags = r.tags
            for pid, (sa, ea) in a.tags.items():
                x = b.tags.get(pid)
                if x is not None:
                    if tags is None:
                        tags = {}
                    un = sa | x[0]
                    ex = ea and x[1]
                    old = tags.get(pid)
                    if old is None or (ex and not old[1]):
                        tags[pid] = (un, ex)
                        if ex:
                            self.tagrep.setdefault((pid, un), r)
            r.tags = tags
        return r

    def and_all(self, gs):
        d = {}
        for g in gs:
            g = self.find(g)
            d[g.id] = g
        gs = [d[k] for k in sorted(d)]
        if not gs:
            return self.TRUE
        while len(gs) > 1:
            nxt = []
            for i in range(0, len(gs) - 1, 2):
                nxt.append(self.AND(gs[i], gs[i + 1]))
            if len(gs) % 2:
                nxt.append(gs[-1])
            gs = nxt
        return self.find(gs[0])

    def or_all(self, gs):
        d = {}
        for g in gs:
            g = self.find(g)
            d[g.id] = g
        gs = [d[k] for k in sorted(d)]
        if not gs:
            return self.FALSE
        while len(gs) > 1:
            nxt = []
            for i in range(0, len(gs) - 1, 2):
                nxt.append(self.OR(gs[i], gs[i + 1]))
            if len(gs) % 2:
                nxt.append(gs[-1])
            gs = nxt
        return self.find(gs[0])

    def validate_tags(self, start=0):
        """debug aid: every exact tag must agree with the simulation signatures"""
        bad = []
        for n in self.nodes[start:]:
            if n.tags and n.rep is None:
                for pid, (sx, ex) in n.tags.items():
                    blocks = self.part_blocks.get(pid)
                    if not blocks:
                        continue
                    cov = 0
                    for i in range(len(blocks)):
                        if (sx >> i) & 1:
                            cov |= self.find(blocks[i]).sig
                    if ex and cov != n.sig:
                        bad.append((n.id, n.kind, pid, bin(sx)[-12:], "exact"))
                    elif not ex and (n.sig & ~cov):
                        bad.append((n.id, n.kind, pid, bin(sx)[-12:], "upper-bound"))
        return bad

    def _evict(self, tags, keep):
        """drop the least useful tags: inexact ones first (oldest first), then oldest exact"""
        order = sorted(tags, key=lambda p: (tags[p][1], p))
        for pid in order[: len(tags) - keep]:
            del tags[pid]

    def is_total(self, pid):
        """does the partition cover every assignment (under the current assumption)?  Known by
        construction, or decided once by the solver and cached."""
        t = self.part_total.get(pid)
        if t is not None:
            return t
        if self._in_total:
            return False
        blocks = self.part_blocks.get(pid)
        if not blocks:
            self.part_total[pid] = False
            return False
        cov = 0
        for b in blocks:
            cov |= self.find(b).sig
        if cov != self.ALL:
            self.part_total[pid] = False
            return False
        self._in_total = True
        try:
            # raw disjunction (no tag reasoning while deciding it)
            x = z3.Bool("tot%d" % pid)
            self.solver.add(x == z3.Not(z3.Or(*[self.expr(b) for b in blocks])))
            r = self._check("totality", [x])
        finally:
            self._in_total = False
        self.part_total[pid] = r == "unsat"
        return self.part_total[pid]

    def new_partition(self, guards, total=False):
        """declare that the given guards are pairwise exclusive (alternatives of one union);
        total: they also cover every assignment (under the current assumption)"""
        gs = [self.find(g) for g in guards]
        gs = [g for g in gs if g.kind != "const"]
        if len(gs) < 2:
            return
        # already exact block sets of one known partition?  then nothing new is learnt (their
        # exclusivity and complements are already decided by that partition's algebra)
        t0 = gs[0].tags
        if t0:
            for pid, (s0, e0) in t0.items():
                if not e0:
                    continue
                ok = True
                for g in gs:
                    x = g.tags.get(pid) if g.tags else None
                    if x is None or not x[1]:
                        ok = False
                        break
                if ok:
                    return
        self._pid += 1
        pid = self._pid
        self.part_total[pid] = True if (bool(total) and len(gs) == len(guards)) else None
        self.part_all[pid] = (1 << len(gs)) - 1
        self.part_blocks[pid] = gs
        for i, g in enumerate(gs):
            t = (1 << i, True)
            self.tagrep.setdefault((pid, t[0]), g)
            if g.tags is None:
                g.tags = {pid: t}
            else:
                if len(g.tags) >= 12:
                    self._evict(g.tags, 11)
                g.tags[pid] = t

    def ITE(self, c, a, b):
        return self.OR(self.AND(c, a), self.AND(self.NOT(c), b))

    def XOR(self, a, b):
        return self.OR(self.AND(a, self.NOT(b)), self.AND(self.NOT(a), b))

    def IMPLIES(self, a, b):
        return self.OR(self.NOT(a), b)

    # -- solver -------------------------------------------------------------------------------

    def expr(self, n):
        """z3 Boolean expression for node n (a literal or its negation); Tseitin definitions of
        AND nodes are asserted once."""
        n = self.find(n)
        if n.lit is not None:
            return n.lit
        stack = [n]
        while stack:
            m = stack[-1]
            if m.lit is not None:
                stack.pop()
                continue
            if m.kind == "not":
                c = self.find(m.a)
                if c.lit is None:
                    stack.append(c)
                    continue
                m.lit = z3.Not(c.lit)
                stack.pop()
            elif m.kind == "and":
                ca = self.find(m.a)
                cb = self.find(m.b)
                if ca.lit is None:
                    stack.append(ca)
                    continue
                if cb.lit is None:
                    stack.append(cb)
                    continue
                x = z3.Bool("n%d" % m.id)
                self.solver.add(x == z3.And(ca.lit, cb.lit))
                m.lit = x
                stack.pop()
            else:
                raise AssertionError(m.kind)
        return n.lit

    def lit(self, n):
        """propositional atom usable as a solver assumption (QF_FD accepts only atoms)"""
        n = self.find(n)
        e = self.expr(n)
        if n.kind != "not":
            return e
        al = self._alit.get(n.id)
        if al is None:
            al = z3.Bool("a%d" % n.id)
            self.solver.add(al == e)
            self._alit[n.id] = al
        return al

    def _check(self, kind, lits, timeout_ms=None):
        t0 = time.time()
        if self.deadline is not None and t0 > self.deadline:
            raise Inconclusive("deadline exceeded")
        for l in lits:
            if z3.is_false(l):
                return "unsat"
        if any(z3.is_true(l) for l in lits):
            lits = [l for l in lits if not z3.is_true(l)]
        if timeout_ms is not None:
            self.solver.set("timeout", timeout_ms)
        if self.trace:
            import sys
            sys.stderr.write("[check %s nlits=%d nodes=%d asserted=%d]\n" % (kind, len(lits), len(self.nodes), len(self.solver.assertions())))
            sys.stderr.flush()
        r = self.solver.check(*lits)
        if timeout_ms is not None:
            self.solver.set("timeout", self.merge_timeout_ms)
        res = str(r)
        dt = time.time() - t0
        self.stats.note(kind, res, dt)
        if dt > 1.0 and self.verbose:
            import sys
            sys.stderr.write("[slow query %s %s %.1fs nodes=%d]\n" % (kind, res, dt, len(self.nodes)))
        return res

    def model_assignment(self):
        """Current solver model as {var name: label}, don't-cares randomised."""
        m = self.solver.model()
        out = {}
        for v in self.vars:
            chosen = None
            for i, a in enumerate(v.atoms):
                val = m.eval(a.lit if a.lit is not None else z3.BoolVal(False), model_completion=False)
                if z3.is_true(val):
                    chosen = i
                    break
            if chosen is None:
                # don't care: any value not explicitly false
                cands = []
                for i, a in enumerate(v.atoms):
                    val = m.eval(a.lit, model_completion=False)
                    if not z3.is_false(val):
                        cands.append(i)
                if not cands:
                    cands = list(range(len(v.domain)))
                chosen = self.rng.choice(cands)
            out[v.name] = v.domain[chosen]
        return out

    def is_sat(self, n, kind="feasible", timeout_ms=None):
        """True / False / None(unknown).  Signature witness short-cuts the solver."""
        n = self.find(n)
        if n is self.FALSE:
            return False
        if n.sig != 0 or n.known in ("sat", "true"):
            return True
        res = self._check(kind, [self.lit(n)], timeout_ms)
        if res == "unsat":
            n.rep = self.FALSE
            n.known = "false"
            if n.neg is not None and n.neg.rep is None:
                n.neg.rep = self.TRUE
            return False
        if res == "sat":
            n.known = "sat"
            return True
        return None

    def _note_model(self):
        self.pending_models.append(self.model_assignment())
        if len(self.pending_models) >= 64:
            self.extend_patterns()

    def product_witness(self, n):
        """n = and(a, b) with zero signature.  With S the variables a and b share, a & b is
        satisfiable iff for some assignment s of S both a & s and b & s are (their remaining
        supports are disjoint, so two witnesses combine).  Cofactor feasibility is read off the
        signatures or asked from the solver once per (operand, s) and cached on the node.
        Returns True (satisfiable), False (unsatisfiable, exact) or None (not applicable)."""
        if n.kind != "and":
            return None
        a, b = self.find(n.a), self.find(n.b)
        if a.kind == "const" or b.kind == "const":
            return None
        shared = a.supp & b.supp
        if shared == 0:
            fa = self.is_sat(a, "cofactor")
            fb = self.is_sat(b, "cofactor")
            if fa is None or fb is None:
                return None
            if fa and fb and a.sig and b.sig:
                ia = (a.sig & -a.sig).bit_length() - 1
                ib = (b.sig & -b.sig).bit_length() - 1
                mdl = {}
                sa = a.supp
                for i, v in enumerate(self.vars):
                    k = ia if (sa >> i) & 1 else ib
                    for j, at in enumerate(v.atoms):
                        if (at.sig >> k) & 1:
                            mdl[v.name] = v.domain[j]
                            break
                self.pending_models.append(mdl)
            return fa and fb
        vs = []
        size = 1
        i = 0
        sh = shared
        while sh:
            if sh & 1:
                v = self.vars[i]
                vs.append(v)
                size *= len(v.domain)
                if size > 48:
                    return None
            sh >>= 1
            i += 1
        unknown = [False]
        found = [None]

        def rec(k, ca, cb):
            if k == len(vs):
                fa = self.is_sat(ca, "cofactor")
                if fa is False:
                    return False
                fb = self.is_sat(cb, "cofactor")
                if fb is False:
                    return False
                if fa is None or fb is None:
                    unknown[0] = True
                    return False
                found[0] = (ca, cb)
                return True
            for at in vs[k].atoms:
                at = self.find(at)
                x = self.AND(ca, at)
                if x is self.FALSE:
                    continue
                y = self.AND(cb, at)
                if y is self.FALSE:
                    continue
                if rec(k + 1, x, y):
                    return True
            return False

        r = rec(0, a, b)
        if r:
            ca, cb = found[0]
            ca, cb = self.find(ca), self.find(cb)
            if ca.sig and cb.sig:
                # combine a pattern of ca with a pattern of cb into a new simulation pattern
                ia = (ca.sig & -ca.sig).bit_length() - 1
                ib = (cb.sig & -cb.sig).bit_length() - 1
                mdl = {}
                sa = a.supp
                for i, v in enumerate(self.vars):
                    k = ia if (sa >> i) & 1 else ib
                    for j, at in enumerate(v.atoms):
                        if (at.sig >> k) & 1:
                            mdl[v.name] = v.domain[j]
                            break
                self.pending_models.append(mdl)
            return True
        return None if unknown[0] else False

    def prove_false_batch(self, nodes, kind="infeasible-batch"):
        """For nodes with zero signature: decide each (sat / unsat).  Product witnesses first (no
        solver), then one query for the whole disjunction (the common case is that all are
        infeasible), then divide and conquer.  Proved-unsatisfiable nodes are merged into FALSE;
        unknown results leave the node alone (treated as satisfiable by callers)."""
        todo = []
        for n in nodes:
            n = self.find(n)
            if n is self.FALSE:
                continue
            if n.sig != 0 or n.known in ("sat", "true"):
                continue
            pw = self.product_witness(n)
            if pw is True:
                n.known = "sat"
                self.stats.product_witnesses += 1
                continue
            if pw is False:
                self._set_false(n)
                self.stats.product_witnesses += 1
                continue
            todo.append(n)
        if self.verbose and len(todo) > 100:
            import sys, traceback
            n0 = [x for x in todo if x.kind == "and"]
            sh = 0
            if n0:
                a, b = self.find(n0[0].a), self.find(n0[0].b)
                sh = a.supp & b.supp
            sys.stderr.write("[dc todo=%d of %d; shared vars of first: %s]\n" % (len(todo), len(nodes), [v.name for i, v in enumerate(self.vars) if sh >> i & 1]))
        if len(self.pending_models) >= 48:
            self.extend_patterns()
        if len(todo) > self.dc_limit:
            # bounded effort: one query for the whole disjunction; if it is satisfiable the
            # nodes stay undecided (callers treat undecided as possibly satisfiable)
            disj = z3.Or(*[self.expr(n) for n in todo])
            t0 = time.time()
            self._bcount += 1
            x = z3.Bool("b%d" % self._bcount)
            self.solver.add(z3.Implies(x, disj))
            r = str(self.solver.check(x))
            self.stats.note(kind, r, time.time() - t0)
            if r == "unsat":
                for n in todo:
                    self._set_false(n)
            else:
                self.stats.undecided += len(todo)
            return
        self._dc(todo, kind)

    def _set_false(self, n):
        n.rep = self.FALSE
        n.known = "false"
        if n.neg is not None and n.neg.rep is None:
            n.neg.rep = self.TRUE

    def _dc(self, todo, kind):
        if not todo:
            return
        todo = [self.find(n) for n in todo]
        todo = [n for n in todo if n.kind != "const" and n.known is None]
        if not todo:
            return
        if len(todo) == 1:
            n = todo[0]
            res = self._check("infeasible", [self.lit(n)])
            if res == "unsat":
                self._set_false(n)
            elif res == "sat":
                n.known = "sat"
            return
        disj = z3.Or(*[self.expr(n) for n in todo])
        t0 = time.time()
        self._bcount += 1
        x = z3.Bool("b%d" % self._bcount)
        self.solver.add(z3.Implies(x, disj))
        r = str(self.solver.check(x))
        self.stats.note(kind, r, time.time() - t0)
        if r == "unsat":
            for n in todo:
                self._set_false(n)
            return
        h = len(todo) // 2
        self._dc(todo[:h], kind)
        self._dc(todo[h:], kind)

    def equivalent(self, a, b, kind="merge"):
        """True (proved) / False (refuted) / None (unknown)."""
        a = self.find(a)
        b = self.find(b)
        if a is b:
            return True
        la = self.lit(a)
        lb = self.lit(b)
        nla = self.lit(self.NOT(a))
        nlb = self.lit(self.NOT(b))
        r1 = self._check(kind, [la, nlb])
        if r1 == "sat":
            if self.refine_patterns:
                self._note_model()
            return False
        r2 = self._check(kind, [nla, lb])
        if r2 == "sat":
            if self.refine_patterns:
                self._note_model()
            return False
        if r1 == "unsat" and r2 == "unsat":
            return True
        return None

    def sweep(self, n):
        """Return the proved representative of n (possibly n itself)."""
        n = self.find(n)
        if not self.sweeping or n.kind in ("const",):
            return n
        sig = n.sig
        if sig == 0:
            return n
        if sig == self.ALL:
            neg = self.NOT(n)
            self.is_sat(neg, "tautology")
            return self.find(n)
        pc = sig.bit_count()
        if pc < self.min_pop or self.npat - pc < self.min_pop:
            return n
        cands = self.reps.get(sig)
        if cands is None:
            ncands = self.reps.get(self.ALL ^ sig)
            if ncands is not None:
                for c in ncands:
                    c = self.find(c)
                    nc = self.NOT(c)
                    if nc is n:
                        return n
                    r = self.equivalent(n, nc)
                    if r is True:
                        self._merge(n, nc)
                        return self.find(n)
                    self.stats.false_candidates += 1
                    break
            self.reps[sig] = [n]
            return n
        for c in cands[:4]:
            c = self.find(c)
            if c is n:
                return n
            r = self.equivalent(n, c)
            if r is True:
                self._merge(n, c)
                return self.find(n)
            self.stats.false_candidates += 1
        if len(cands) < 4:
            cands.append(n)
        return n

    def _merge(self, n, rep):
        """n := rep (rep has the smaller id preferably)."""
        n = self.find(n)
        rep = self.find(rep)
        if n is rep:
            return
        # always merge the younger node into the older one: a node's descendants are older than
        # the node, so the representative can never contain the merged node (no cycles)
        if n.id < rep.id:
            n, rep = rep, n
        n.rep = rep
        self.stats.merges += 1
        if n.tags:
            if rep.tags is None:
                rep.tags = dict(n.tags)
            else:
                for pid, t in n.tags.items():
                    x = rep.tags.get(pid)
                    if x is None or (t[1] and not x[1]):
                        rep.tags[pid] = t
                    elif not t[1] and not x[1]:
                        rep.tags[pid] = (x[0] & t[0], False)
        if n.imp and not rep.imp:
            rep.imp = n.imp
        if n.neg is not None and rep.neg is not None:
            nn = self.find(n.neg)
            rn = self.find(rep.neg)
            if nn is not rn:
                if rn.id < nn.id:
                    nn.rep = rn
                else:
                    rn.rep = nn
        elif n.neg is not None and rep.neg is None:
            # keep negation link consistent
            nn = self.find(n.neg)
            rep.neg = nn
            nn.neg = rep

    # -- patterns -----------------------------------------------------------------------------

    def extend_patterns(self):
        """Append pending models as new simulation patterns (all signatures recomputed for the new
        bits).  Cost O(#nodes)."""
        models = self.pending_models
        self.pending_models = []
        if not models:
            return
        k = len(models)
        self.stats.pattern_extensions += 1
        shift = self.npat
        newall = (1 << k) - 1
        # new bits per node, by creation order
        bits = [0] * len(self.nodes)
        for v in self.vars:
            cols = [0] * len(v.domain)
            for j, mdl in enumerate(models):
                lab = mdl.get(v.name)
                if lab is None or lab not in v.index:
                    idx = self.rng.randrange(len(v.domain))
                else:
                    idx = v.index[lab]
                cols[idx] |= 1 << j
            for i, a in enumerate(v.atoms):
                bits[a.id] = cols[i]
        bits[self.TRUE.id] = newall
        for n in self.nodes:
            if n.kind == "and":
                bits[n.id] = bits[n.a.id] & bits[n.b.id]
            elif n.kind == "not":
                bits[n.id] = newall ^ bits[n.a.id]
        self.npat += k
        self.ALL = (1 << self.npat) - 1
        for n in self.nodes:
            n.sig = n.sig | (bits[n.id] << shift)
        # rebuild representative table
        reps = {}
        for sig, lst in self.reps.items():
            for c in lst:
                c = self.find(c)
                reps.setdefault(c.sig, [])
                if c not in reps[c.sig]:
                    reps[c.sig].append(c)
        self.reps = reps

    def restrict(self, g, nsamples=256, keep_random=True):
        """Assume guard g from now on: it is asserted in the solver, and the simulation patterns
        are replaced by models of g (random patterns that happen to satisfy g are kept, the rest
        are solver-sampled).  All signatures are recomputed."""
        g = self.find(g)
        if self.is_sat(g, "vacuity") is not True:
            raise Inconclusive("restriction is not satisfiable")
        self.solver.add(self.lit(g))
        self.assumption = g if self.assumption is None else self.AND(self.assumption, g)
        self._assumption_raw.append(g)
        for n in self.nodes:
            if n.known == "sat":
                n.known = None
        models = []
        # keep patterns satisfying g
        if keep_random and g.sig:
            keep = [k for k in range(self.npat) if (g.sig >> k) & 1][:nsamples]
            for k in keep:
                mdl = {}
                for v in self.vars:
                    for i, a in enumerate(v.atoms):
                        if (a.sig >> k) & 1:
                            mdl[v.name] = v.domain[i]
                            break
                models.append(mdl)
        tries = 0
        rr = self.rng
        while len(models) < nsamples and tries < nsamples * 3:
            tries += 1
            # random assumption literals on a random subset of variables
            nv = len(self.vars)
            kfix = rr.randrange(0, max(1, nv // 2) + 1)
            assum = []
            for v in rr.sample(self.vars, min(kfix, nv)):
                assum.append(v.atoms[rr.randrange(len(v.domain))].lit)
            t0 = time.time()
            r = str(self.solver.check(*assum))
            self.stats.note("sample", r, time.time() - t0)
            if r == "sat":
                models.append(self.model_assignment())
        if not models:
            raise Inconclusive("no model sampled under restriction")
        # rebuild all signatures from the sampled models only
        k = len(models)
        self.npat = k
        self.ALL = (1 << k) - 1
        for v in self.vars:
            cols = [0] * len(v.domain)
            for j, mdl in enumerate(models):
                cols[v.index[mdl[v.name]]] |= 1 << j
            for i, a in enumerate(v.atoms):
                a.sig = cols[i]
        self.TRUE.sig = self.ALL
        self.FALSE.sig = 0
        for n in self.nodes:
            if n.kind == "and":
                n.sig = n.a.sig & n.b.sig
            elif n.kind == "not":
                n.sig = self.ALL ^ n.a.sig
        reps = {}
        for sig, lst in list(self.reps.items()):
            for c in lst:
                c = self.find(c)
                lst2 = reps.setdefault(c.sig, [])
                if c not in lst2:
                    lst2.append(c)
        reps.setdefault(0, [])
        if self.FALSE not in reps[0]:
            reps[0].insert(0, self.FALSE)
        reps.setdefault(self.ALL, [])
        if self.TRUE not in reps[self.ALL]:
            reps[self.ALL].insert(0, self.TRUE)
        self.reps = reps
        # the assumption itself is now TRUE
        gg = self.find(g)
        if gg is not self.TRUE:
            gg.rep = self.TRUE
            if gg.neg is not None:
                self.find(gg.neg).rep = self.FALSE

    # -- verdicts -----------------------------------------------------------------------------

    def verdict_unsat(self, n, name):
        """Decide satisfiability of n as a *verdict* query.  Returns (status, model) with status in
        'unsat' | 'sat' | 'unknown'; model is an assignment dict for 'sat'."""
        n = self.find(n)
        if n is self.FALSE:
            return "unsat", None
        if n.sig != 0:
            # witnessed by a simulation pattern: extract it; still a solver-confirmed model below
            pass
        res = self._check("verdict", [self.lit(n)], self.verdict_timeout_ms)
        if res == "sat":
            return "sat", self.model_assignment()
        if res == "unsat":
            n.rep = self.FALSE
            return "unsat", None
        return "unknown", None

    def pattern_assignment(self, k):
        mdl = {}
        for v in self.vars:
            for i, a in enumerate(v.atoms):
                if (a.sig >> k) & 1:
                    mdl[v.name] = v.domain[i]
                    break
        return mdl

    def eval_nodes(self, roots, assignment):
        """Concrete truth value of each root under a full assignment {var name: label}."""
        memo = {}
        out = []
        for r in roots:
            out.append(self._eval(self.find(r), assignment, memo))
        return out

    def _eval(self, n, asg, memo):
        stack = [n]
        while stack:
            m = stack[-1]
            if m.id in memo:
                stack.pop()
                continue
            if m.kind == "const":
                memo[m.id] = m is self.TRUE
                stack.pop()
            elif m.kind == "atom":
                memo[m.id] = asg[m.var.name] == m.var.domain[m.val]
                stack.pop()
            elif m.kind == "not":
                if m.a.id not in memo:
                    stack.append(m.a)
                    continue
                memo[m.id] = not memo[m.a.id]
                stack.pop()
            else:
                if m.a.id not in memo:
                    stack.append(m.a)
                    continue
                if m.b.id not in memo:
                    stack.append(m.b)
                    continue
                memo[m.id] = memo[m.a.id] and memo[m.b.id]
                stack.pop()
        return memo[n.id]

    def support(self, roots):
        """Set of variable names the (swept) roots syntactically depend on."""
        seen = set()
        out = set()
        stack = [self.find(r) for r in roots]
        while stack:
            m = stack.pop()
            if m.id in seen:
                continue
            seen.add(m.id)
            if m.kind == "atom":
                out.add(m.var.name)
            elif m.kind == "not":
                stack.append(self.find(m.a))
            elif m.kind == "and":
                stack.append(self.find(m.a))
                stack.append(self.find(m.b))
        return out

    def cone_size(self, roots):
        seen = set()
        stack = [self.find(r) for r in roots]
        while stack:
            m = stack.pop()
            if m.id in seen:
                continue
            seen.add(m.id)
            if m.kind == "not":
                stack.append(self.find(m.a))
            elif m.kind == "and":
                stack.append(self.find(m.a))
                stack.append(self.find(m.b))
        return len(seen)

    def dump_smt2(self, roots_assumed_true, path):
        """Write a QF_UF (pure Boolean) SMT-LIB2 file asserting each root, for an independent
        solver.  Includes the exactly-one constraints and the restriction assumption."""
        roots = list(roots_assumed_true) + list(self._assumption_raw)
        order = []
        seen = set()
        stack = [(r, False) for r in roots]
        while stack:
            m, done = stack.pop()
            if done:
                order.append(m)
                continue
            if m.id in seen:
                continue
            seen.add(m.id)
            stack.append((m, True))
            if m.kind == "not":
                stack.append((m.a, False))
            elif m.kind == "and":
                stack.append((m.a, False))
                stack.append((m.b, False))
        lines = ["(set-logic QF_UF)"]
        usedvars = set()
        for m in order:
            if m.kind == "atom":
                usedvars.add(m.var.name)
        for v in self.vars:
            if v.name not in usedvars:
                continue
            names = ["|%s=%d|" % (v.name, i) for i in range(len(v.domain))]
            for nm in names:
                lines.append("(declare-const %s Bool)" % nm)
            if len(names) > 1:
                lines.append("(assert (or %s))" % " ".join(names))
                for i in range(len(names)):
                    for j in range(i + 1, len(names)):
                        lines.append("(assert (or (not %s) (not %s)))" % (names[i], names[j]))
            else:
                lines.append("(assert %s)" % names[0])

        def nm(m):
            if m.kind == "const":
                return "true" if m is self.TRUE else "false"
            if m.kind == "atom":
                return "|%s=%d|" % (m.var.name, m.val)
            return "n%d" % m.id

        for m in order:
            if m.kind == "not":
                lines.append("(define-fun n%d () Bool (not %s))" % (m.id, nm(m.a)))
            elif m.kind == "and":
                lines.append("(define-fun n%d () Bool (and %s %s))" % (m.id, nm(m.a), nm(m.b)))
        for r in roots:
            lines.append("(assert %s)" % nm(r))
        lines.append("(check-sat)")
        with open(path, "w") as f:
            f.write("\n".join(lines) + "\n")
