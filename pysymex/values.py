"""
Value layer of pysymex: guarded unions of concrete Python values (real CPython semantics at the
leaves), pair leaves for product execution, two-sided conditions, symbolic containers and
structured strings.
"""

from decimal import Decimal
from fractions import Fraction

from .guards import GuardMgr, Inconclusive, Node  # noqa: F401


class EngineError(BaseException):
    """Not an `Exception` on purpose: leaf operations catch `Exception` only."""


class Unsupported(EngineError):
    pass


class HarnessInconclusive(EngineError):
    pass


class _Sentinel(object):
    def __init__(self, name):
        self.name = name

    def __repr__(self):
        return self.name


UNBOUND = _Sentinel("UNBOUND")  # variable/slot has no value on this path
ABSENT = _Sentinel("ABSENT")  # domain label: optional metric not written at all


class Pair(object):
    """Leaf of product execution: value on the left run / value on the right run."""

    __slots__ = ("l", "r")

    def __init__(self, l, r):
        self.l = l
        self.r = r

    def __repr__(self):
        return "Pair(%r, %r)" % (self.l, self.r)


class U(object):
    """Guarded union: pairwise exclusive guards, concrete leaves."""

    __slots__ = ("alts", "total")

    def __init__(self, alts, total=False):
        self.alts = alts
        self.total = total

    def __repr__(self):
        return "U[%s]" % ", ".join("%r" % (v,) for g, v in self.alts[:8]) + (
            "..." if len(self.alts) > 8 else ""
        )


class Cond(object):
    """Two-sided condition (left run, right run).  In ordinary execution l is r."""

    __slots__ = ("l", "r")

    def __init__(self, l, r=None):
        self.l = l
        self.r = l if r is None else r

    def __repr__(self):
        return "Cond(%r,%r)" % (self.l, self.r)


def vkey(v):
    t = type(v)
    if t is str or t is int or t is bool or v is None:
        return (t, v)
    if t is float:
        return ("f", repr(v))
    if t is Decimal:
        if v.is_finite():
            return ("D", v.normalize().as_tuple()) if v else ("D", 0, v.is_signed())
        return ("D", str(v))
    if t is Fraction:
        return ("F", v.numerator, v.denominator)
    if t is tuple:
        return ("t",) + tuple(vkey(x) for x in v)
    if t is Pair:
        return ("P", vkey(v.l), vkey(v.r))
    if t is frozenset:
        return ("fs", v)
    if t is list:
        return ("l",) + tuple(vkey(x) for x in v)
    return ("id", id(v))


_ENGINE_TYPE_NAMES = ("'SymList'", "'SymDict'", "'SymIter'", "'StructStr'", "'Pair'", "'U'", "'Opaque'", "'Obj'", "'Cond'", "'_Unbound'", "'ClassVal'", "'FuncVal'", "'BoundMethod'")


def _call(f, vals):
    for v in vals:
        if v is UNBOUND:
            return False, UnboundLocalError("value is not bound on this path")
    try:
        return True, f(*vals)
    except Exception as e:  # noqa: BLE001 - leaf semantics are CPython's
        if isinstance(e, (AttributeError, TypeError)) and any(k in str(e) for k in _ENGINE_TYPE_NAMES):
            # a CPython operation was applied to an engine object (a symbolic list inside a pair
            # leaf, ...): that is the engine's limit, not an exception of the analysed program
            raise Unsupported("leaf operation reached an engine object: %s" % (e,))
        return False, e


def mkpair(l, r):
    if l is r or vkey(l) == vkey(r):
        return l
    return Pair(l, r)


def left(v):
    return v.l if type(v) is Pair else v


def right(v):
    return v.r if type(v) is Pair else v


# -- symbolic containers -----------------------------------------------------------------------

_epoch = [0]


def current_epoch():
    return _epoch[0]


def set_epoch(e):
    _epoch[0] = e


class HeapObj(object):
    __slots__ = ("epoch", "origin")

    def _init_heap(self, origin=None):
        self.epoch = _epoch[0]
        self.origin = origin


class SymList(HeapObj):
    """Ordered optional elements: [[presence Cond, Value], ...]."""

    __slots__ = ("elems", "is_tuple")

    def __init__(self, elems=None, is_tuple=False):
        self._init_heap()
        self.elems = elems if elems is not None else []
        self.is_tuple = is_tuple


class SymIter(HeapObj):
    """A one-shot iterator (result of map / filter / zip / enumerate / reversed / a generator
    expression): the elements not yet consumed, [[presence Cond, Value], ...].  Consumption updates
    the presences in place (under the consumer's path condition), so a second consumption sees
    what Python would see.  Element values are computed when the iterator is created (stated
    modelling assumption: the inputs are not modified between creation and consumption)."""

    __slots__ = ("elems", "indeterminate")

    def __init__(self, elems=None):
        self._init_heap()
        self.elems = elems if elems is not None else []
        self.indeterminate = False


class SymDict(HeapObj):
    """Concrete keys in first-insertion order; per key presence Cond and Value."""

    __slots__ = ("keys", "pres", "vals", "ordered", "symkeys")

    def __init__(self, ordered=False):
        self._init_heap()
        self.keys = []
        self.pres = {}
        self.vals = {}
        self.ordered = ordered
        # a key was stored through a symbolic key expression: the engine's key order is then an
        # approximation of the insertion order (iterations over such a dict are counted)
        self.symkeys = False


class StructStr(object):
    """sep.join(present chunks); chunks = [(presence guard Node, Value of sep-free str)]."""

    __slots__ = ("sep", "chunks")

    def __init__(self, sep, chunks):
        self.sep = sep
        self.chunks = chunks

    def __repr__(self):
        return "StructStr(%r, %d chunks)" % (self.sep, len(self.chunks))


class Opaque(object):
    """Value whose content is not modelled (formatted messages, json text, hash codes)."""

    __slots__ = ("kind", "args")

    def __init__(self, kind, args=()):
        self.kind = kind
        self.args = args

    def __repr__(self):
        return "Opaque(%s)" % self.kind


# -- the value context ---------------------------------------------------------------------------


class VCtx(object):
    def __init__(self, mgr):
        self.m = mgr
        self.T = mgr.TRUE
        self.F = mgr.FALSE
        self.CT = Cond(mgr.TRUE)
        self.CF = Cond(mgr.FALSE)
        self.lift_count = 0
        self.debug = False
        import os
        self.tagcheck = bool(os.environ.get("VERIF_TAGCHECK"))
        self.max_partition = int(os.environ.get("VERIF_MAX_PARTITION", "768"))
        self.combo_count = 0

    # -- conditions ---------------------------------------------------------------------------

    def c_and(self, a, b):
        if a is self.CT:
            return b
        if b is self.CT:
            return a
        l = self.m.AND(a.l, b.l)
        if a.l is a.r and b.l is b.r:
            return Cond(l)
        return Cond(l, self.m.AND(a.r, b.r))

    def c_or(self, a, b):
        if a is self.CF:
            return b
        if b is self.CF:
            return a
        l = self.m.OR(a.l, b.l)
        if a.l is a.r and b.l is b.r:
            return Cond(l)
        return Cond(l, self.m.OR(a.r, b.r))

    def c_not(self, a):
        l = self.m.NOT(a.l)
        if a.l is a.r:
            return Cond(l)
        return Cond(l, self.m.NOT(a.r))

    def c_andg(self, a, g):
        """Cond and single guard"""
        if g is self.T:
            return a
        l = self.m.AND(a.l, g)
        if a.l is a.r:
            return Cond(l)
        return Cond(l, self.m.AND(a.r, g))

    def c_any(self, a):
        """guard: some side active"""
        if a.l is a.r:
            return self.m.find(a.l)
        return self.m.OR(a.l, a.r)

    def c_find(self, a):
        l = self.m.find(a.l)
        if a.l is a.r:
            if l is a.l:
                return a
            return Cond(l)
        return Cond(l, self.m.find(a.r))

    def c_is_false(self, a):
        """decided infeasible on both sides (solver is asked for zero-signature candidates)"""
        m = self.m
        l = m.find(a.l)
        if l is not self.F:
            if l.sig != 0 or l.known is not None:
                return False
            if m.is_sat(l, "branch") is not False:
                return False
        if a.l is a.r:
            return True
        r = m.find(a.r)
        if r is self.F:
            return True
        if r.sig != 0 or r.known is not None:
            return False
        return m.is_sat(r, "branch") is False

    def c_is_true(self, a):
        l = self.m.find(a.l)
        if l is not self.T:
            if l.sig != self.m.ALL:
                return False
            l = self.m.sweep(l)
            if l is not self.T:
                return False
        if a.l is a.r:
            return True
        r = self.m.find(a.r)
        if r is not self.T:
            if r.sig != self.m.ALL:
                return False
            r = self.m.sweep(r)
        return r is self.T

    def c_sweep(self, a):
        l = self.m.sweep(a.l)
        if a.l is a.r:
            return Cond(l)
        return Cond(l, self.m.sweep(a.r))

    # -- unions ---------------------------------------------------------------------------------

    def alts(self, v):
        if type(v) is U:
            return v.alts
        return [(self.T, v)]

    def mk_union(self, pairs, sweep=True, total=False, partition=True):
        """pairs: [(guard, leaf-or-U)] with exclusive guards (before flattening).  Returns a
        Value: UNBOUND if empty, the leaf if a single alternative remains, else U."""
        m = self.m
        F = self.F
        groups = {}
        order = []
        for g, v in pairs:
            g = m.find(g)
            if g is F:
                continue
            if type(v) is U:
                for g2, v2 in v.alts:
                    gg = m.AND(g, g2)
                    if gg is F:
                        continue
                    k = vkey(v2)
                    e = groups.get(k)
                    if e is None:
                        groups[k] = [v2, [gg]]
                        order.append(k)
                    else:
                        e[1].append(gg)
                continue
            k = vkey(v)
            e = groups.get(k)
            if e is None:
                groups[k] = [v, [g]]
                order.append(k)
            else:
                e[1].append(g)
        if not order:
            return UNBOUND
        if len(order) == 1:
            return groups[order[0]][0]
        out = []
        for k in order:
            v, gs = groups[k]
            g = m.or_all(gs) if len(gs) > 1 else m.find(gs[0])
            if g is F:
                continue
            out.append((g, v))
        res = []
        for g, v in out:
            g = m.find(g)
            if g is F:
                continue
            if sweep:
                g = m.sweep(g)
                if g is F:
                    continue
            res.append((g, v))
        if not res:
            return UNBOUND
        if len(res) == 1:
            return res[0][1]
        if self.tagcheck:
            # exclusivity of the alternatives on the simulation patterns
            acc = 0
            for g, _ in res:
                if acc & g.sig:
                    raise AssertionError("mk_union: alternatives overlap on a simulation pattern")
                acc |= g.sig
            if total and acc != m.ALL:
                raise AssertionError("mk_union: union flagged total does not cover every pattern")
            bad = m.validate_tags()
            if bad:
                raise AssertionError("inconsistent partition tags: %r" % (bad[:3],))
        if partition and 2 < len(res) <= self.max_partition:
            # (block sets of very wide unions cost more memory than they save solver work)
            m.new_partition([g for g, _ in res], total=total)
        elif partition and len(res) == 2 and not (res[0][0].tags and res[1][0].tags):
            m.new_partition([g for g, _ in res], total=total)
        return U(res, total)

    def restrict(self, v, g):
        """alternatives of v compatible with guard g (guards conjoined)"""
        if type(v) is not U or g is self.T:
            return v
        m = self.m
        out = []
        zero = []
        for ag, av in v.alts:
            ng = m.AND(ag, g)
            if ng is self.F:
                continue
            if ng.sig == 0 and ng.known is None:
                zero.append(ng)
            out.append((ng, av))
        if zero:
            m.prove_false_batch(zero)
        return self.mk_union(out, sweep=False)

    def lift(self, f, args, pc, sink):
        """Apply the real Python function f to every feasible combination of alternatives of args
        (under pc).  Exceptions raised by f become symbolic raises: sink(Cond, exception)."""
        anyU = False
        anyP = False
        for a in args:
            t = type(a)
            if t is U:
                anyU = True
            elif t is Pair:
                anyP = True
        self.lift_count += 1
        if not anyU and not anyP:
            ok, res = _call(f, args)
            if ok:
                return res
            if not self.c_is_false(pc):
                sink(pc, res)
            return UNBOUND
        m = self.m
        F = self.F
        total = True
        for a in args:
            if type(a) is U and not a.total:
                total = False
                break
        # speculative evaluation: operands are combined over *all* their alternatives, the
        # activity condition only decides which raised exceptions are real (stores select on it)
        base = self.T
        combos = [(base, ())]
        for a in args:
            if type(a) is U:
                new = []
                zero = []
                first = len(combos) == 1 and combos[0][0] is base and base is not self.T
                for g, vals in combos:
                    for ag, av in a.alts:
                        ng = m.AND_S(g, ag) if first else m.AND(g, ag)
                        if ng is F:
                            continue
                        if ng.sig == 0 and ng.known is None:
                            zero.append(ng)
                        new.append((ng, vals + (av,)))
                if zero:
                    if self.debug and len(zero) > 500:
                        import sys
                        sys.stderr.write("[lift %s: %d zero-signature combos of %d]\n" % (getattr(f, "__name__", f), len(zero), len(new)))
                    m.prove_false_batch(zero)
                    new = [(m.find(g), vals) for g, vals in new if m.find(g) is not F]
                combos = new
            else:
                combos = [(g, vals + (a,)) for g, vals in combos]
        self.combo_count += len(combos)
        if self.debug and len(combos) > 3000:
            import sys
            sys.stderr.write("[lift %s combos=%d args=%s]\n" % (getattr(f, "__name__", f), len(combos), [len(a.alts) if type(a) is U else 1 for a in args]))
        out = []
        single = pc.l is pc.r
        for g, vals in combos:
            hasp = anyP
            if not hasp:
                for v in vals:
                    if type(v) is Pair:
                        hasp = True
                        break
            if not hasp:
                ok, res = _call(f, vals)
                if not ok:
                    total = False
                    if single:
                        ec = Cond(m.AND_S(pc.l, g))
                    else:
                        ec = Cond(m.AND(g, pc.l), m.AND(g, pc.r))
                    if not self.c_is_false(ec):
                        sink(ec, res)
                    continue
                out.append((g, res))
                continue
            lv = tuple(v.l if type(v) is Pair else v for v in vals)
            rv = tuple(v.r if type(v) is Pair else v for v in vals)
            okl, rl = _call(f, lv)
            okr, rr = _call(f, rv)
            if not (okl and okr):
                total = False
            if okl and okr:
                out.append((g, mkpair(rl, rr)))
                continue
            if not okl:
                cl = m.AND(g, pc.l)
                if m.is_sat(cl, "side-exc") is not False:
                    sink(Cond(cl, F), rl)
            if not okr:
                cr = m.AND(g, pc.r)
                if m.is_sat(cr, "side-exc") is not False:
                    sink(Cond(F, cr), rr)
            if okl:
                out.append((g, Pair(rl, UNBOUND)))
            elif okr:
                out.append((g, Pair(UNBOUND, rr)))
        return self.mk_union(out, total=total)

    def select(self, c, new, old):
        """value that is `new` where c holds and `old` elsewhere (componentwise for pairs)"""
        m = self.m
        if c.l is c.r:
            g = m.find(c.l)
            if g is self.T:
                return new
            if g is self.F:
                return old
            if new is old:
                return new
            ng = m.NOT(g)
            pairs = []
            if type(new) is U:
                for ag, av in new.alts:
                    pairs.append((m.AND_S(g, ag), av))
            else:
                pairs.append((g, new))
            if type(old) is U:
                for ag, av in old.alts:
                    pairs.append((m.AND_S(ng, ag), av))
            else:
                pairs.append((ng, old))
            zero = [x for x, _ in pairs if x is not self.F and x.sig == 0 and x.known is None]
            if zero:
                m.prove_false_batch(zero)
            tot = (type(new) is not U or new.total) and (type(old) is not U or old.total)
            return self.mk_union(pairs, sweep=True, total=tot)
        # two-sided
        l = m.find(c.l)
        r = m.find(c.r)
        both = m.AND(l, r)
        onlyl = m.AND(l, m.NOT(r))
        onlyr = m.AND(m.NOT(l), r)
        none = m.AND(m.NOT(l), m.NOT(r))
        pairs = []
        na = self.alts(new)
        oa = self.alts(old)
        for ag, av in na:
            pairs.append((m.AND(both, ag), av))
        for og, ov in oa:
            pairs.append((m.AND(none, og), ov))
        if onlyl is not self.F or onlyr is not self.F:
            for ag, av in na:
                for og, ov in oa:
                    j = m.AND(ag, og)
                    if j is self.F:
                        continue
                    if onlyl is not self.F:
                        pairs.append((m.AND(onlyl, j), mkpair(left(av), right(ov))))
                    if onlyr is not self.F:
                        pairs.append((m.AND(onlyr, j), mkpair(left(ov), right(av))))
        zero = [g for g, _ in pairs if g is not self.F and g.sig == 0 and g.known is None]
        if zero:
            m.prove_false_batch(zero)
        return self.mk_union(pairs, sweep=False)

    def cond_of(self, v, pyt=bool):
        """Cond under which the (already boolean-ish) concrete leaves of v are truthy."""
        m = self.m
        t = type(v)
        if t is not U and t is not Pair:
            return self.CT if pyt(v) else self.CF
        if t is Pair:
            a = self.T if pyt(v.l) else self.F
            b = self.T if pyt(v.r) else self.F
            return Cond(a, b)
        ls = []
        rs = []
        paired = False
        for g, leaf in v.alts:
            if type(leaf) is Pair:
                paired = True
                if pyt(leaf.l):
                    ls.append(g)
                if pyt(leaf.r):
                    rs.append(g)
            else:
                if pyt(leaf):
                    ls.append(g)
                    rs.append(g)
        l = m.or_all(ls)
        if not paired:
            return Cond(l)
        return Cond(l, m.or_all(rs))

    def from_var(self, var, mapping=None):
        """Union over the domain of a finite variable (labels mapped through `mapping`)."""
        pairs = []
        for lab in var.domain:
            val = lab if mapping is None else mapping(lab)
            pairs.append((self.m.atom(var, lab), val))
        return self.mk_union(pairs, sweep=False, total=True)

    def guard_eq(self, v, const):
        """single guard: value v equals const (by vkey); pair leaves not allowed"""
        k = vkey(const)
        gs = []
        for g, leaf in self.alts(v):
            if type(leaf) is Pair:
                raise Unsupported("guard_eq on pair leaf")
            if vkey(leaf) == k:
                gs.append(g)
        return self.m.or_all(gs)
