"""
Structured strings: sep.join(present chunks), every chunk a union of concrete sep-free strings.
All predicates are computed structurally and return two-sided conditions (Cond).
"""

from .values import Cond, Pair, StructStr, SymList, U, Unsupported, left, right


def _nosink(c, e):
    raise Unsupported("string leaf operation raised %r" % (e,))


def leaf_pred(vc, s, fn):
    """Cond: fn(leaf) over the leaves of chunk value s"""
    t = type(s)
    if t is not U and t is not Pair:
        return vc.CT if fn(s) else vc.CF
    return vc.cond_of(vc.lift(fn, [s], vc.CT, _nosink))


def none_present(vc, chunks):
    m = vc.m
    return m.and_all([m.NOT(g) for g, _ in chunks])


def check_chunk(ss_sep, v, vc):
    for g, leaf in vc.alts(v):
        for x in (left(leaf), right(leaf)):
            if not isinstance(x, str):
                raise Unsupported("non-str chunk %r" % (x,))
            if ss_sep in x:
                raise Unsupported("chunk contains separator")


def _match_prefix(vc, chunks, parts, last_fn_name):
    """DP: the first len(parts)-1 present chunks equal parts[:-1]; the next present chunk satisfies
    last_fn(chunk, parts[-1]).  Returns (done Cond, st0_alive Cond) where st0_alive is the condition
    that no chunk was present at all."""
    k = len(parts) - 1
    CF = vc.CF
    st = [vc.CT] + [CF] * k
    done = CF
    for g, s in chunks:
        if g is vc.F:
            continue
        new = [CF] * (k + 1)
        ng = vc.m.NOT(g)
        for j in range(k + 1):
            if st[j] is CF:
                continue
            # absent: state unchanged
            if ng is not vc.F:
                new[j] = vc.c_or(new[j], vc.c_andg(st[j], ng))
            pj = parts[j]
            if j < k:
                c = leaf_pred(vc, s, lambda x, pj=pj: x == pj)
                if c is not CF:
                    new[j + 1] = vc.c_or(new[j + 1], vc.c_and(vc.c_andg(st[j], g), c))
            else:
                if last_fn_name == "startswith":
                    c = leaf_pred(vc, s, lambda x, pj=pj: x.startswith(pj))
                elif last_fn_name == "endswith":
                    c = leaf_pred(vc, s, lambda x, pj=pj: x.endswith(pj))
                else:
                    c = leaf_pred(vc, s, lambda x, pj=pj: x == pj)
                if c is not CF:
                    done = vc.c_or(done, vc.c_and(vc.c_andg(st[j], g), c))
        st = new
    return done, st


def startswith(vc, ss, const):
    parts = const.split(ss.sep)
    done, st = _match_prefix(vc, ss.chunks, parts, "startswith")
    if len(parts) == 1 and parts[0] == "":
        return vc.CT
    return done


def endswith(vc, ss, const):
    parts = const.split(ss.sep)[::-1]
    done, st = _match_prefix(vc, ss.chunks[::-1], parts, "endswith")
    if len(parts) == 1 and parts[0] == "":
        return vc.CT
    return done


def eq_const(vc, ss, const):
    if not isinstance(const, str):
        return vc.CF
    parts = const.split(ss.sep)
    # exact match: all parts consumed and no further chunk present
    k = len(parts)
    CF = vc.CF
    st = [vc.CT] + [CF] * k
    for g, s in ss.chunks:
        if g is vc.F:
            continue
        new = [CF] * (k + 1)
        ng = vc.m.NOT(g)
        for j in range(k + 1):
            if st[j] is CF:
                continue
            if ng is not vc.F:
                new[j] = vc.c_or(new[j], vc.c_andg(st[j], ng))
            if j < k:
                pj = parts[j]
                c = leaf_pred(vc, s, lambda x, pj=pj: x == pj)
                if c is not CF:
                    new[j + 1] = vc.c_or(new[j + 1], vc.c_and(vc.c_andg(st[j], g), c))
        st = new
    res = st[k]
    if const == "":
        res = vc.c_or(res, st[0])
    return res


def eq_ss(vc, a, b):
    if a.sep != b.sep:
        raise Unsupported("StructStr == with different separators")
    if a is b:
        return vc.CT
    A = [c for c in a.chunks if c[0] is not vc.F]
    B = [c for c in b.chunks if c[0] is not vc.F]
    n, mm = len(A), len(B)
    m = vc.m
    CF = vc.CF
    # E[i][j]: suffixes A[i:], B[j:] yield equal sequences of present chunks
    E = [[None] * (mm + 1) for _ in range(n + 1)]
    E[n][mm] = vc.CT
    for j in range(mm - 1, -1, -1):
        E[n][j] = vc.c_andg(E[n][j + 1], m.NOT(B[j][0]))
    for i in range(n - 1, -1, -1):
        E[i][mm] = vc.c_andg(E[i + 1][mm], m.NOT(A[i][0]))
    for i in range(n - 1, -1, -1):
        gi, si = A[i]
        ngi = m.NOT(gi)
        for j in range(mm - 1, -1, -1):
            gj, sj = B[j]
            ngj = m.NOT(gj)
            # a_i absent -> E[i+1][j]; a_i present & b_j absent -> E[i][j+1];
            # both present -> equal strings & E[i+1][j+1]
            t1 = vc.c_andg(E[i + 1][j], ngi)
            t2 = vc.c_andg(vc.c_andg(E[i][j + 1], gi), ngj)
            t3 = CF
            if E[i + 1][j + 1] is not CF:
                both = m.AND(gi, gj)
                if both is not vc.F:
                    ce = chunk_eq(vc, si, sj)
                    if ce is not CF:
                        t3 = vc.c_and(vc.c_andg(E[i + 1][j + 1], both), ce)
            E[i][j] = vc.c_or(vc.c_or(t1, t2), t3)
    res = E[0][0]
    # edge: "" as zero chunks vs one empty chunk
    na = none_present(vc, A)
    nb = none_present(vc, B)
    if na is not vc.F:
        res = vc.c_or(res, vc.c_andg(eq_const(vc, b, ""), na))
    if nb is not vc.F:
        res = vc.c_or(res, vc.c_andg(eq_const(vc, a, ""), nb))
    return res


def chunk_eq(vc, s1, s2):
    t1, t2 = type(s1), type(s2)
    if t1 is not U and t1 is not Pair and t2 is not U and t2 is not Pair:
        return vc.CT if s1 == s2 else vc.CF
    # quick disjointness test on leaves
    l1 = set()
    for g, x in vc.alts(s1):
        l1.add(left(x))
        l1.add(right(x))
    hit = False
    for g, x in vc.alts(s2):
        if left(x) in l1 or right(x) in l1:
            hit = True
            break
    if not hit:
        return vc.CF
    return vc.cond_of(vc.lift(lambda x, y: x == y, [s1, s2], vc.CT, _nosink))


def split(vc, ss, sep, maxsplit=-1):
    if sep != ss.sep:
        raise Unsupported("split(%r) on StructStr with separator %r" % (sep, ss.sep))
    if maxsplit == -1:
        elems = [[Cond(g), s] for g, s in ss.chunks if g is not vc.F]
        np_ = none_present(vc, ss.chunks)
        if np_ is not vc.F:
            elems.append([Cond(np_), ""])
        return SymList(elems)
    if maxsplit == 1:
        chunks = [c for c in ss.chunks if c[0] is not vc.F]
        if not chunks:
            return SymList([[vc.CT, ""]])
        if vc.m.find(chunks[0][0]) is not vc.T:
            raise Unsupported("split(sep, 1) with optional first chunk")
        rest = StructStr(ss.sep, chunks[1:])
        h = vc.m.NOT(none_present(vc, chunks[1:]))
        two = SymList([[vc.CT, chunks[0][1]], [vc.CT, rest]])
        one = SymList([[vc.CT, chunks[0][1]]])
        return vc.mk_union([(h, two), (vc.m.NOT(h), one)], sweep=False)
    raise Unsupported("split with maxsplit=%r" % (maxsplit,))


def partition(vc, ss, sep):
    """str.partition(sep) for sep == the structure's separator: (first chunk, sep or "", rest)"""
    if sep != ss.sep:
        raise Unsupported("partition(%r) on StructStr with separator %r" % (sep, ss.sep))
    chunks = [c for c in ss.chunks if c[0] is not vc.F]
    if not chunks:
        return SymList([[vc.CT, ""], [vc.CT, ""], [vc.CT, ""]], is_tuple=True)
    if vc.m.find(chunks[0][0]) is not vc.T:
        raise Unsupported("partition(sep) with optional first chunk")
    rest = StructStr(ss.sep, chunks[1:])
    h = vc.m.NOT(none_present(vc, chunks[1:]))
    mid = vc.mk_union([(h, sep), (vc.m.NOT(h), "")], sweep=False)
    tail = vc.mk_union([(h, rest), (vc.m.NOT(h), "")], sweep=False)
    return SymList([[vc.CT, chunks[0][1]], [vc.CT, mid], [vc.CT, tail]], is_tuple=True)


def _const_parts(vc, v, sep):
    """v: concrete str or union of str; returns list of per-position Values if all leaves split into
    the same number of parts"""
    if isinstance(v, str):
        return list(v.split(sep))
    ns = set()
    for g, leaf in vc.alts(v):
        for x in (left(leaf), right(leaf)):
            if not isinstance(x, str):
                raise Unsupported("concatenation of StructStr with %r" % (x,))
            ns.add(len(x.split(sep)))
    if len(ns) != 1:
        raise Unsupported("concatenation with strings of varying chunk count")
    n = ns.pop()
    return [vc.lift(lambda x, i=i: x.split(sep)[i], [v], vc.CT, _nosink) for i in range(n)]


def concat_left(vc, pre, ss):
    """pre + ss, pre a concrete str or union of concrete strs"""
    parts = _const_parts(vc, pre, ss.sep)
    k = len(parts) - 1
    last = parts[k]
    chunks = [c for c in ss.chunks if c[0] is not vc.F]
    np_ = none_present(vc, chunks)
    T = vc.T
    head = [(T, p) for p in parts[:k]]
    if isinstance(last, str) and last == "":
        if k == 0:
            return ss
        tail = [(np_, "")] if np_ is not vc.F else []
        return StructStr(ss.sep, head + chunks + tail)
    # last part is glued to the first present chunk
    m = vc.m
    new = []
    before = T  # no earlier chunk present
    for g, s in chunks:
        first = m.AND(before, g)
        if first is vc.F:
            new.append((g, s))
        else:
            glued = vc.lift(lambda a, b: a + b, [last, s], vc.CT, _nosink)
            new.append((g, vc.select(Cond(first), glued, s)))
        before = m.AND(before, m.NOT(g))
    tail = [(np_, last)] if np_ is not vc.F else []
    return StructStr(ss.sep, head + new + tail)


def concat_right(vc, ss, post):
    parts = _const_parts(vc, post, ss.sep)
    first = parts[0]
    chunks = [c for c in ss.chunks if c[0] is not vc.F]
    np_ = none_present(vc, chunks)
    T = vc.T
    tail = [(T, p) for p in parts[1:]]
    if isinstance(first, str) and first == "":
        if len(parts) == 1:
            return ss
        mid = [(np_, "")] if np_ is not vc.F else []
        return StructStr(ss.sep, chunks + mid + tail)
    m = vc.m
    new = []
    after = T
    for g, s in reversed(chunks):
        lastp = m.AND(after, g)
        if lastp is vc.F:
            new.append((g, s))
        else:
            glued = vc.lift(lambda a, b: a + b, [s, first], vc.CT, _nosink)
            new.append((g, vc.select(Cond(lastp), glued, s)))
        after = m.AND(after, m.NOT(g))
    new.reverse()
    mid = [(np_, first)] if np_ is not vc.F else []
    return StructStr(ss.sep, new + mid + tail)


def concat_ss(vc, a, b):
    """a + b for two StructStr with the same separator: the last present chunk of a is glued to
    the first present chunk of b.  Supported when a surely ends with an empty chunk or b surely
    starts with one (the only forms the code under test produces)."""
    if a.sep != b.sep:
        raise Unsupported("StructStr + StructStr with different separators")
    ac = [c for c in a.chunks if c[0] is not vc.F]
    bc = [c for c in b.chunks if c[0] is not vc.F]
    if ac and vc.m.find(ac[-1][0]) is vc.T and isinstance(ac[-1][1], str) and ac[-1][1] == "":
        np_ = none_present(vc, bc)
        tail = [(np_, "")] if np_ is not vc.F else []
        return StructStr(a.sep, ac[:-1] + bc + tail)
    if bc and vc.m.find(bc[0][0]) is vc.T and isinstance(bc[0][1], str) and bc[0][1] == "":
        np_ = none_present(vc, ac)
        head = [(np_, "")] if np_ is not vc.F else []
        return StructStr(a.sep, head + ac + bc[1:])
    raise Unsupported("general StructStr + StructStr")


def join(vc, sep, lst):
    """sep.join(SymList of str Values)"""
    chunks = []
    for pres, v in lst.elems:
        if pres.l is not pres.r:
            raise Unsupported("join over list with two-sided presence")
        if type(v) is StructStr:
            raise Unsupported("join over structured strings")
        g = vc.m.find(pres.l)
        if g is vc.F:
            continue
        if type(v) is U and g is not vc.T:
            # only the alternatives that can occur where the element is present matter
            keep = []
            for ag, av in v.alts:
                x = vc.m.AND_S(g, ag)
                if x is vc.F or (x.sig == 0 and x.known is None and vc.m.is_sat(x, "feasible") is False):
                    continue
                keep.append((ag, av))
            v = vc.mk_union(keep, sweep=False) if len(keep) != len(v.alts) else v
        check_chunk(sep, v, vc)
        chunks.append((g, v))
    return StructStr(sep, chunks)


def nonempty(vc, ss):
    return vc.c_not(eq_const(vc, ss, ""))


def concretize(vc, ss, assignment, side="l"):
    """the concrete string under a full assignment"""
    out = []
    for g, s in ss.chunks:
        if not vc.m.eval_nodes([g], assignment)[0]:
            continue
        out.append(concretize_value(vc, s, assignment, side))
    return ss.sep.join(out)


def concretize_value(vc, v, assignment, side="l"):
    if type(v) is U:
        for g, leaf in v.alts:
            if vc.m.eval_nodes([g], assignment)[0]:
                v = leaf
                break
        else:
            raise AssertionError("no alternative of union holds under assignment")
    if type(v) is Pair:
        v = v.l if side == "l" else v.r
    if type(v) is StructStr:
        return concretize(vc, v, assignment, side)
    return v
