"""
strsym: a small *forking* symbolic executor for lemmas about arbitrary strings.

The guarded-union engine (interp.py) covers finite domains.  Statements of the form "for every
string ..." need a solver theory of strings: here a block of the real source (an `ast` statement
list taken from /repo on every run) is executed with some values being z3 terms (String / Int /
Bool).  Every symbolic branch forks; paths are enumerated by re-execution along a decision prefix.
Each finished path yields (path condition, outcome, final symbolic state); the harness turns
"the property fails on this path" into one z3 query per path: unsat for every path = the lemma
holds for every string (within z3's sequence theory and the stated character range).

Nothing here knows about CVSS: tables, exception classes and helper functions are the real
objects of the module imported from the tree under analysis; module-level functions and methods
are interpreted from their source when called with symbolic arguments.

Supported subset (anything else raises Unsupported -> the lemma is inconclusive, never a pass):
statements  Expr Assign AugAssign If Try/Except Raise Return Pass Break Continue For (over concrete
            sequences) While (bounded) Assert
expressions constants, names, attributes, calls, comparisons (== != in not in is < <= > >=), bool
            ops, not, subscripts/slices, tuples/lists/dicts, conditional expressions, f-strings and
            str.format (opaque text)
str methods split (unpack / index / len over a bounded number of pieces), partition, startswith,
            endswith, strip/lstrip/rstrip (default whitespace set, ASCII + the Unicode spaces
            listed in WS), upper/lower (ASCII range, bounded length), find/index, count is
            refused, +, in, len, slicing with constant bounds, isdigit/isalpha/isupper (refused)
"""

import ast
import re as _re
import time

import z3


class Unsupported(Exception):
    pass


class _Raise(Exception):
    """an exception raised by the interpreted program"""

    def __init__(self, value):
        Exception.__init__(self)
        self.value = value


class _Return(Exception):
    def __init__(self, value):
        Exception.__init__(self)
        self.value = value


class _Break(Exception):
    pass


class _Continue(Exception):
    pass


class _Infeasible(Exception):
    """internal: no alternative of a decision is satisfiable together with the path condition"""


# -- symbolic values ----------------------------------------------------------------------------


class SStr(object):
    def __init__(self, z):
        self.z = z

    def __repr__(self):
        return "SStr(%s)" % self.z


class RawStr(object):
    """a string the lemma quantifies over only THROUGH its strip(): the only operation allowed is
    .strip() (default white space), which yields a free string without leading / trailing white
    space.  (Relating an arbitrary string to its stripped core needs two Kleene stars around the
    core; neither z3 nor cvc5 decides the resulting queries within a minute - measured.)"""

    def __init__(self, name):
        self.name = name
        self.core = z3.String(name + ".strip()")


class SInt(object):
    def __init__(self, z):
        self.z = z


class SBool(object):
    def __init__(self, z):
        self.z = z


class SSplit(object):
    """result of s.split(sep) / s.split(sep, maxsplit) on a symbolic string, optionally sliced
    [start:] with a constant start"""

    def __init__(self, s, sep, start=0):
        self.s = s
        self.sep = sep
        self.start = start


class Opaque(object):
    """formatted text (error messages); never inspected"""

    def __repr__(self):
        return "<opaque text>"


class SymMap(object):
    """a dict in an ARBITRARY state: for each of a known set of keys a Bool `has` and a String
    `val`; writes are recorded on top.  Keys reaching it are concrete (symbolic keys are
    concretised by a fork over the known keys + 'none of them')."""

    def __init__(self, keys, prefix):
        self.keys = list(keys)
        self.has = {k: z3.Bool("%s.has.%s" % (prefix, k)) for k in keys}
        self.val = {k: z3.String("%s.val.%s" % (prefix, k)) for k in keys}
        self.whas = {}  # written presence: key -> True/False (concrete)
        self.wval = {}  # written value: key -> python str | SStr
        self.foreign = []  # [(key value (concrete str or SStr), value)] keys outside `keys`

    def clone_base(self):
        return self

    def has_z(self, k):
        if k in self.whas:
            return z3.BoolVal(self.whas[k])
        return self.has[k]

    def val_z(self, k):
        if k in self.wval:
            return zstr(self.wval[k])
        return self.val[k]


WS = " \t\n\r\x0b\x0c\x1c\x1d\x1e\x1f\x85\xa0"  # str.strip() default set, code points < 0x100


def zstr(v):
    if isinstance(v, SStr):
        return v.z
    if isinstance(v, str):
        return z3.StringVal(v)
    raise Unsupported("string expected, got %r" % (type(v).__name__,))


def zint(v):
    if isinstance(v, SInt):
        return v.z
    if isinstance(v, bool):
        raise Unsupported("bool used as int")
    if isinstance(v, int):
        return z3.IntVal(v)
    raise Unsupported("int expected, got %r" % (type(v).__name__,))


def is_sym(v):
    return isinstance(v, (SStr, SInt, SBool, SSplit, SymMap, RawStr, SMatch))


# -- the executor -------------------------------------------------------------------------------


class Path(object):
    def __init__(self):
        self.pc = []  # z3 Bools
        self.decisions = []
        self.outcome = None  # ("normal",) | ("raise", exc) | ("return", v) | ("break",) | ("continue",)
        self.locals = None
        self.notes = []
        self.known = {}  # z3 term id -> concrete string it equals on this path
        self.known_not = {}  # z3 term id -> strings it differs from on this path


class Executor(object):
    def __init__(self, module, max_paths=4000, max_steps=20000, upper_len=8):
        self.module = module
        self.globals = module.__dict__
        self.max_paths = max_paths
        self.max_steps = max_steps
        self.upper_len = upper_len
        self.fresh = 0
        self.functions = {}  # name -> (FunctionDef, defining globals): interpreted callees
        self.encoded = {}  # qualified name -> (first line, last line)
        self.side = []  # side constraints introduced by fresh variables (strip, upper): global
        self.bounds_used = set()
        self.self_obj = None
        self.steps = 0
        self.prune = True
        self.deadline = None
        self.assume = []  # harness assumptions (used for pruning only; the harness adds them to its queries)
        self.prune_time = 0.0
        self.prune_queries = {}

    # .. path exploration ..................................................................

    def explore(self, run):
        """run(ex) executes the block once; returns the list of finished Paths"""
        done = []
        stack = [[]]
        while stack:
            prefix = stack.pop()
            if len(done) > self.max_paths:
                raise Unsupported("more than %d paths" % self.max_paths)
            if self.deadline is not None and time.time() > self.deadline:
                raise Unsupported("path exploration exceeded its time budget (%d paths finished)" % len(done))
            self.path = Path()
            self.prefix = list(prefix)
            self.pos = 0
            self.alts = []
            self.steps = 0
            self.fresh = 0
            self.side = []
            try:
                out = run(self)
                self.path.outcome = out
            except _Raise as r:
                self.path.outcome = ("raise", r.value)
            except _Return as r:
                self.path.outcome = ("return", r.value)
            except _Break:
                self.path.outcome = ("break",)
            except _Continue:
                self.path.outcome = ("continue",)
            except Unsupported as u:
                self.path.outcome = ("unsupported", str(u))
            except _Infeasible:
                self.path.outcome = ("infeasible",)
            self.path.pc = self.path.pc + self.side
            if self.path.outcome[0] != "infeasible":
                done.append(self.path)
            # schedule the alternatives of decisions taken beyond the prefix
            for i, others in self.alts:
                for alt in others:
                    stack.append(self.path.decisions[:i] + [alt])
        return done

    def feasible(self, cond):
        """cheap pruning of forks: False only if the solver PROVED pc & cond unsatisfiable"""
        if not self.prune:
            return True
        s = z3.Solver()
        s.set("timeout", 2000)
        for c in self.path.pc:
            s.add(c)
        for c in self.side:
            s.add(c)
        for c in self.assume:
            s.add(c)
        s.add(cond)
        t0 = time.time()
        r = s.check()
        self.prune_time += time.time() - t0
        self.prune_queries[str(r)] = self.prune_queries.get(str(r), 0) + 1
        return r != z3.unsat

    def decide(self, conds):
        """fork over mutually exclusive, jointly exhaustive conditions; returns the index taken"""
        i = self.pos
        self.pos += 1
        if i < len(self.prefix):
            k = self.prefix[i]
        else:
            feas = [j for j, c in enumerate(conds) if self.feasible(c)]
            if not feas:
                raise _Infeasible()
            k = feas[0]
            self.alts.append((i, feas[1:]))
        self.path.decisions.append(k)
        self.path.pc.append(conds[k])
        return k

    def branch(self, cond):
        """truth value of a (possibly symbolic) condition on this path"""
        if isinstance(cond, SBool):
            c = z3.simplify(cond.z)
            if z3.is_true(c):
                return True
            if z3.is_false(c):
                return False
            return self.decide([c, z3.Not(c)]) == 0
        if isinstance(cond, SStr):
            return self.branch(SBool(z3.Length(cond.z) > 0))
        if isinstance(cond, SInt):
            return self.branch(SBool(cond.z != 0))
        if isinstance(cond, (SSplit, SMatch)):
            return True  # a split result always has at least one piece; a match object is true
        if isinstance(cond, SymMap):
            raise Unsupported("truth value of a dict in an arbitrary state")
        return bool(cond)

    def choose(self, s, candidates):
        """concretise a symbolic string against a list of distinct concrete strings: returns the
        candidate it equals on this path, or None (equals none of them)"""
        cands = list(candidates)
        z = s.z
        tid = z.get_id()
        # what earlier decisions of this path already fixed about this term (no new fork needed)
        if tid in self.path.known:
            c = self.path.known[tid]
            return c if c in cands else None
        excluded = self.path.known_not.setdefault(tid, set())
        cands = [c for c in cands if c not in excluded]
        if not cands:
            return None
        conds = [z == z3.StringVal(c) for c in cands]
        conds.append(z3.And([z != z3.StringVal(c) for c in cands]))
        k = self.decide(conds)
        if k < len(cands):
            self.path.known[tid] = cands[k]
            return cands[k]
        excluded.update(cands)
        return None

    def new_str(self, hint):
        self.fresh += 1
        return z3.String("%s!%d" % (hint, self.fresh))

    # .. statements ........................................................................

    def exec_block(self, stmts, env):
        for st in stmts:
            self.exec_stmt(st, env)

    def tick(self):
        self.steps += 1
        if self.steps > self.max_steps:
            raise Unsupported("step bound exceeded")

    def exec_stmt(self, st, env):
        self.tick()
        if isinstance(st, ast.Expr):
            self.eval(st.value, env)
        elif isinstance(st, ast.Assign):
            v = self.eval(st.value, env)
            for t in st.targets:
                self.assign(t, v, env)
        elif isinstance(st, ast.AugAssign):
            cur = self.eval(_load(st.target), env)
            v = self.binop(st.op, cur, self.eval(st.value, env))
            self.assign(st.target, v, env)
        elif isinstance(st, ast.If):
            if self.branch(self.eval(st.test, env)):
                self.exec_block(st.body, env)
            else:
                self.exec_block(st.orelse, env)
        elif isinstance(st, ast.Raise):
            if st.exc is None:
                if env.get("$exc") is None:
                    raise Unsupported("bare raise outside except")
                raise _Raise(env["$exc"])
            v = self.eval(st.exc, env)
            if isinstance(v, type) and issubclass(v, BaseException):
                v = v()
            if not isinstance(v, BaseException):
                raise Unsupported("raise of a non-exception")
            raise _Raise(v)
        elif isinstance(st, ast.Try):
            self.exec_try(st, env)
        elif isinstance(st, ast.Return):
            raise _Return(self.eval(st.value, env) if st.value is not None else None)
        elif isinstance(st, ast.Pass):
            pass
        elif isinstance(st, ast.Break):
            raise _Break()
        elif isinstance(st, ast.Continue):
            raise _Continue()
        elif isinstance(st, ast.For):
            it = self.eval(st.iter, env)
            if is_sym(it) or isinstance(it, Opaque):
                raise Unsupported("for over a symbolic iterable")
            broke = False
            for x in list(it):
                self.assign(st.target, x, env)
                try:
                    self.exec_block(st.body, env)
                except _Break:
                    broke = True
                    break
                except _Continue:
                    continue
            if not broke:
                self.exec_block(st.orelse, env)
        elif isinstance(st, ast.While):
            n = 0
            broke = False
            while self.branch(self.eval(st.test, env)):
                n += 1
                if n > 64:
                    raise Unsupported("while loop bound (64) exceeded")
                try:
                    self.exec_block(st.body, env)
                except _Break:
                    broke = True
                    break
                except _Continue:
                    continue
            if not broke:
                self.exec_block(st.orelse, env)
        elif isinstance(st, ast.Assert):
            if not self.branch(self.eval(st.test, env)):
                raise _Raise(AssertionError())
        elif isinstance(st, (ast.Import, ast.ImportFrom, ast.Global, ast.Nonlocal, ast.FunctionDef, ast.ClassDef, ast.With, ast.Delete)):
            raise Unsupported("statement %s" % type(st).__name__)
        else:
            raise Unsupported("statement %s" % type(st).__name__)

    def exec_try(self, st, env):
        if st.finalbody:
            raise Unsupported("try/finally")
        try:
            self.exec_block(st.body, env)
        except _Raise as r:
            for h in st.handlers:
                if h.type is None:
                    match = True
                else:
                    t = self.eval(h.type, env)
                    match = isinstance(r.value, t)
                if match:
                    saved = env.get("$exc")
                    env["$exc"] = r.value
                    if h.name:
                        env[h.name] = r.value
                    try:
                        self.exec_block(h.body, env)
                    finally:
                        env["$exc"] = saved
                    return
            raise
        else:
            self.exec_block(st.orelse, env)

    def assign(self, t, v, env):
        if isinstance(t, ast.Name):
            env[t.id] = v
        elif isinstance(t, (ast.Tuple, ast.List)):
            n = len(t.elts)
            if any(isinstance(e, ast.Starred) for e in t.elts):
                raise Unsupported("starred assignment")
            if isinstance(v, SSplit):
                pieces = self.split_exactly(v, n)
                if pieces is None:
                    raise _Raise(ValueError("wrong number of values to unpack"))
                for e, p in zip(t.elts, pieces):
                    self.assign(e, p, env)
                return
            if is_sym(v) or isinstance(v, Opaque):
                raise Unsupported("unpacking %s" % type(v).__name__)
            try:
                vals = list(v)
            except TypeError:
                raise _Raise(TypeError("cannot unpack"))
            if len(vals) != n:
                raise _Raise(ValueError("wrong number of values to unpack"))
            for e, p in zip(t.elts, vals):
                self.assign(e, p, env)
        elif isinstance(t, ast.Attribute):
            o = self.eval(t.value, env)
            if isinstance(o, Obj):
                o.attrs[t.attr] = v
                o.stores.append(t.attr)
            else:
                raise Unsupported("attribute store on %s" % type(o).__name__)
        elif isinstance(t, ast.Subscript):
            o = self.eval(t.value, env)
            k = self.eval(_index(t), env)
            if isinstance(o, SymMap):
                self.map_store(o, k, v)
            elif isinstance(o, (dict, list)) and not is_sym(k) and getattr(o, "_strsym_local", False):
                o[k] = v
            elif isinstance(o, LocalDict):
                if is_sym(k):
                    raise Unsupported("symbolic key stored into a local dict")
                o.d[k] = v
            else:
                raise Unsupported("subscript store on %s" % type(o).__name__)
        else:
            raise Unsupported("assignment target %s" % type(t).__name__)

    # .. symbolic dict ......................................................................

    def map_key(self, m, k):
        """concrete key for a map operation: (key, is_known_key)"""
        if isinstance(k, SStr):
            c = self.choose(k, m.keys)
            if c is None:
                return k, False
            return c, True
        if isinstance(k, str):
            return k, k in m.has
        raise Unsupported("map key of type %s" % type(k).__name__)

    def map_contains(self, m, k):
        key, known = self.map_key(m, k)
        if known:
            return SBool(m.has_z(key))
        for fk, _ in m.foreign:
            if fk is key:
                return True
            if isinstance(fk, str) and isinstance(key, str):
                if fk == key:
                    return True
                continue
            if self.branch(SBool(zstr(fk) == zstr(key))):
                return True
        return False

    def map_load(self, m, k):
        key, known = self.map_key(m, k)
        if known:
            if not self.branch(SBool(m.has_z(key))):
                raise _Raise(KeyError(key if isinstance(key, str) else "?"))
            v = m.wval.get(key)
            return v if v is not None else SStr(m.val[key])
        for fk, fv in reversed(m.foreign):
            if fk is key or (isinstance(fk, str) and fk == key) or (not (isinstance(fk, str) and isinstance(key, str)) and self.branch(SBool(zstr(fk) == zstr(key)))):
                return fv
        raise _Raise(KeyError("?"))

    def map_store(self, m, k, v):
        key, known = self.map_key(m, k)
        if known:
            m.whas[key] = True
            m.wval[key] = v
        else:
            m.foreign.append((key, v))

    # .. expressions ........................................................................

    def eval(self, e, env):
        self.tick()
        if isinstance(e, ast.Constant):
            return e.value
        if isinstance(e, ast.Name):
            if e.id in env:
                return env[e.id]
            g = env.get("$globals", self.globals)
            if e.id in g:
                return g[e.id]
            import builtins

            if hasattr(builtins, e.id):
                return getattr(builtins, e.id)
            raise _Raise(NameError(e.id))
        if isinstance(e, ast.Attribute):
            o = self.eval(e.value, env)
            return self.getattr(o, e.attr)
        if isinstance(e, ast.Call):
            return self.eval_call(e, env)
        if isinstance(e, ast.Compare):
            left = self.eval(e.left, env)
            res = None
            for op, r in zip(e.ops, e.comparators):
                right = self.eval(r, env)
                c = self.compare(op, left, right)
                if len(e.ops) == 1:
                    return c
                if not self.branch(c):
                    return False
                left = right
                res = True
            return res
        if isinstance(e, ast.BoolOp):
            if isinstance(e.op, ast.And):
                v = True
                for x in e.values:
                    v = self.eval(x, env)
                    if not self.branch(v):
                        return v if not isinstance(v, SBool) else False
                return v if not isinstance(v, SBool) else True
            v = False
            for x in e.values:
                v = self.eval(x, env)
                if self.branch(v):
                    return v if not isinstance(v, SBool) else True
            return v if not isinstance(v, SBool) else False
        if isinstance(e, ast.UnaryOp):
            v = self.eval(e.operand, env)
            if isinstance(e.op, ast.Not):
                if isinstance(v, SBool):
                    return SBool(z3.Not(v.z))
                return not self.branch(v)
            if isinstance(e.op, ast.USub):
                if isinstance(v, SInt):
                    return SInt(-v.z)
                return -v
            raise Unsupported("unary operator")
        if isinstance(e, ast.BinOp):
            return self.binop(e.op, self.eval(e.left, env), self.eval(e.right, env))
        if isinstance(e, ast.Subscript):
            o = self.eval(e.value, env)
            if isinstance(e.slice, ast.Slice):
                lo = self.eval(e.slice.lower, env) if e.slice.lower is not None else None
                hi = self.eval(e.slice.upper, env) if e.slice.upper is not None else None
                if e.slice.step is not None:
                    raise Unsupported("slice step")
                return self.slice(o, lo, hi)
            return self.subscript(o, self.eval(_index(e), env))
        if isinstance(e, (ast.Tuple, ast.List)):
            vals = [self.eval(x, env) for x in e.elts]
            return tuple(vals) if isinstance(e, ast.Tuple) else vals
        if isinstance(e, ast.Dict):
            d = {}
            for k, v in zip(e.keys, e.values):
                kk = self.eval(k, env)
                if is_sym(kk):
                    raise Unsupported("symbolic key in dict display")
                d[kk] = self.eval(v, env)
            return LocalDict(d)
        if isinstance(e, ast.IfExp):
            return self.eval(e.body, env) if self.branch(self.eval(e.test, env)) else self.eval(e.orelse, env)
        if isinstance(e, ast.JoinedStr):
            parts = [self.eval(v.value, env) if isinstance(v, ast.FormattedValue) else v.value for v in e.values]
            if any(is_sym(p) or isinstance(p, Opaque) for p in parts):
                return Opaque()
            return "".join(str(p) for p in parts)
        if isinstance(e, ast.ListComp) or isinstance(e, ast.GeneratorExp) or isinstance(e, ast.SetComp):
            if len(e.generators) != 1 or e.generators[0].is_async:
                raise Unsupported("nested comprehension")
            gen = e.generators[0]
            it = self.eval(gen.iter, env)
            if is_sym(it):
                raise Unsupported("comprehension over a symbolic iterable")
            out = []
            sub = dict(env)
            for x in list(it.d if isinstance(it, LocalDict) else it):
                self.assign(gen.target, x, sub)
                if all(self.branch(self.eval(c, sub)) for c in gen.ifs):
                    out.append(self.eval(e.elt, sub))
            return out
        raise Unsupported("expression %s" % type(e).__name__)

    def getattr(self, o, name):
        if isinstance(o, Obj):
            if name in o.attrs:
                return o.attrs[name]
            fn = _lookup_method(o.cls, name)
            if fn is not None:
                return BoundMethod(o, fn)
            raise _Raise(AttributeError(name))
        if isinstance(o, (SStr, SSplit, SymMap, LocalDict, RawStr)):
            return SymMethod(o, name)
        if isinstance(o, SMatch):
            return SymMethod(o, name)
        if isinstance(o, (SInt, SBool, Opaque)):
            raise Unsupported("attribute %s of %s" % (name, type(o).__name__))
        try:
            return getattr(o, name)
        except AttributeError as x:
            raise _Raise(x)

    # .. calls ..............................................................................

    def eval_call(self, e, env):
        f = self.eval(e.func, env)
        args = []
        for a in e.args:
            if isinstance(a, ast.Starred):
                raise Unsupported("star arguments")
            args.append(self.eval(a, env))
        kwargs = {}
        for k in e.keywords:
            if k.arg is None:
                raise Unsupported("** arguments")
            kwargs[k.arg] = self.eval(k.value, env)
        return self.call(f, args, kwargs)

    def call(self, f, args, kwargs):
        if isinstance(f, SymMethod):
            return self.call_sym_method(f.recv, f.name, args, kwargs)
        if isinstance(f, BoundMethod):
            return self.call_interpreted(f.fn, [f.recv] + args, kwargs)
        anysym = any(is_sym(a) or isinstance(a, (Opaque, Obj, LocalDict)) for a in list(args) + list(kwargs.values()))
        if isinstance(f, type) and issubclass(f, BaseException):
            clean = [a if not (is_sym(a) or isinstance(a, Opaque)) else "<text>" for a in args]
            return f(*clean)
        if f is len and len(args) == 1:
            return self.length(args[0])
        if f is str and len(args) == 1:
            a = args[0]
            if isinstance(a, (SStr, str)):
                return a
            if isinstance(a, (SInt, Opaque)):
                return Opaque()
        if f is isinstance and len(args) == 2 and not is_sym(args[1]):
            a = args[0]
            if isinstance(a, SStr):
                t = args[1] if isinstance(args[1], tuple) else (args[1],)
                return any(issubclass(str, x) for x in t)
            if not is_sym(a):
                return isinstance(a, args[1])
        if f is bool and len(args) == 1:
            return self.branch(args[0])
        if f is print:
            return None
        if f is int and len(args) == 1 and isinstance(args[0], SStr):
            raise Unsupported("int() of a symbolic string")
        if f is float and len(args) == 1 and isinstance(args[0], SStr):
            raise Unsupported("float() of a symbolic string")
        # str.format on a concrete template
        if getattr(f, "__name__", "") == "format" and isinstance(getattr(f, "__self__", None), str):
            if anysym:
                return Opaque()
            return f(*args, **kwargs)
        # regular expressions on symbolic strings
        mod = getattr(f, "__module__", None)
        if anysym and (mod == "re" or isinstance(getattr(f, "__self__", None), _re.Pattern)):
            return self.call_re(f, args, kwargs)
        # interpreted function of the module under analysis
        import types

        if isinstance(f, types.FunctionType) and anysym:
            return self.call_interpreted(f, args, kwargs)
        if isinstance(f, types.MethodType) and anysym:
            return self.call_interpreted(f.__func__, [f.__self__] + args, kwargs)
        if anysym:
            # concrete callee with a symbolic argument: only a few are understood
            slf = getattr(f, "__self__", None)
            name = getattr(f, "__name__", "")
            if isinstance(slf, str) and name in ("find", "index", "startswith", "endswith", "split", "partition", "rpartition", "strip", "lstrip", "rstrip") and not kwargs:
                # a concrete string as receiver of a method with a symbolic argument
                return self.call_sym_method(SStr(z3.StringVal(slf)), name, args, kwargs)
            if isinstance(slf, list) and name == "append" and len(args) == 1 and not kwargs:
                slf.append(args[0])  # a list local to this path (paths re-execute from scratch)
                return None
            if isinstance(slf, str) and name == "join":
                raise Unsupported("str.join with symbolic parts")
            if isinstance(slf, dict) and name in ("get", "__contains__", "__getitem__"):
                k = args[0]
                if isinstance(k, SStr):
                    c = self.choose(k, [x for x in slf.keys() if isinstance(x, str)])
                    if c is None:
                        if name == "get":
                            return args[1] if len(args) > 1 else None
                        if name == "__contains__":
                            return False
                        raise _Raise(KeyError("?"))
                    return f(c, *args[1:])
            raise Unsupported("call of %s with a symbolic argument" % (getattr(f, "__qualname__", None) or repr(f)))
        try:
            return f(*args, **kwargs)
        except Unsupported:
            raise
        except Exception as x:  # noqa: BLE001  the interpreted program's own exception
            raise _Raise(x)

    def call_interpreted(self, fn, args, kwargs):
        import inspect

        key = fn.__module__ + ":" + fn.__qualname__
        if key not in self.functions:
            try:
                src = inspect.getsource(fn)
            except (OSError, TypeError):
                raise Unsupported("no source for %s" % key)
            import textwrap

            tree = ast.parse(textwrap.dedent(src))
            node = tree.body[0]
            if not isinstance(node, ast.FunctionDef):
                raise Unsupported("not a plain function: %s" % key)
            first = fn.__code__.co_firstlineno
            self.functions[key] = node
            self.encoded[key] = (first, first + (node.end_lineno - node.lineno))
        node = self.functions[key]
        a = node.args
        if a.vararg or a.kwarg or a.kwonlyargs or a.posonlyargs:
            raise Unsupported("signature of %s" % key)
        names = [x.arg for x in a.args]
        env = {"$globals": fn.__globals__}
        if len(args) > len(names):
            raise _Raise(TypeError("too many arguments"))
        for n, v in zip(names, args):
            env[n] = v
        defaults = dict(zip(names[len(names) - len(a.defaults):], [self.eval(d, {"$globals": fn.__globals__}) for d in a.defaults]))
        for n in names[len(args):]:
            if n in kwargs:
                env[n] = kwargs.pop(n)
            elif n in defaults:
                env[n] = defaults[n]
            else:
                raise _Raise(TypeError("missing argument %s" % n))
        if kwargs:
            raise _Raise(TypeError("unexpected keyword argument"))
        try:
            self.exec_block(node.body, env)
        except _Return as r:
            return r.value
        return None

    # .. operations on symbolic strings .....................................................

    def length(self, a):
        if isinstance(a, SStr):
            return SInt(z3.Length(a.z))
        if isinstance(a, SSplit):
            # number of pieces: fork over 1..4, more is refused
            for n in range(0 if a.start > 0 else 1, 5):
                ps = self.split_exactly(a, n, raise_unsupported=False)
                if ps is not None:
                    return n
            raise Unsupported("len() of a split with more than 4 pieces")
        if isinstance(a, SymMap):
            raise Unsupported("len() of a dict in an arbitrary state")
        if isinstance(a, LocalDict):
            return len(a.d)
        if is_sym(a) or isinstance(a, Opaque):
            raise Unsupported("len() of %s" % type(a).__name__)
        try:
            return len(a)
        except TypeError as x:
            raise _Raise(x)

    def split_pieces(self, sp, n):
        """terms of the first n pieces of the split and the condition 'there are exactly n'.
        Pieces are counted from the start of the string (the slice offset is applied by callers)."""
        s = sp.s.z
        sep = z3.StringVal(sp.sep)
        L = len(sp.sep)
        pieces = []
        conds = []
        start = z3.IntVal(0)
        for i in range(n - 1):
            idx = z3.IndexOf(s, sep, start)
            conds.append(idx >= 0)
            pieces.append(z3.SubString(s, start, idx - start))
            start = idx + L
        conds.append(z3.IndexOf(s, sep, start) < 0)
        pieces.append(z3.SubString(s, start, z3.Length(s) - start))
        return pieces, z3.And(conds)

    def split_exactly(self, sp, n, raise_unsupported=True):
        """pieces if the (sliced) split has exactly n elements on this path, else None"""
        total = n + sp.start
        pieces, cond = self.split_pieces(sp, total)
        if self.branch(SBool(cond)):
            return [SStr(z3.simplify(p)) for p in pieces[sp.start:]]
        return None

    def call_sym_method(self, recv, name, args, kwargs):
        if kwargs:
            raise Unsupported("keyword arguments to %s" % name)
        if isinstance(recv, SymMap):
            if name == "get":
                if self.branch(self.map_contains(recv, args[0])):
                    return self.map_load(recv, args[0])
                return args[1] if len(args) > 1 else None
            if name == "keys" or name == "items" or name == "values":
                raise Unsupported("iteration over a dict in an arbitrary state")
            if name == "setdefault" and len(args) == 2:
                if self.branch(self.map_contains(recv, args[0])):
                    return self.map_load(recv, args[0])
                self.map_store(recv, args[0], args[1])
                return args[1]
            raise Unsupported("dict method %s" % name)
        if isinstance(recv, LocalDict):
            if name == "get":
                k = args[0]
                if isinstance(k, SStr):
                    k = self.choose(k, [x for x in recv.d if isinstance(x, str)])
                if k in recv.d:
                    return recv.d[k]
                return args[1] if len(args) > 1 else None
            if name in ("keys", "values", "items"):
                return list(getattr(recv.d, name)())
            raise Unsupported("dict method %s" % name)
        if isinstance(recv, SSplit):
            raise Unsupported("list method %s on a split result" % name)
        if isinstance(recv, SMatch):
            if name == "groups" and not args:
                return tuple(recv.grps)
            if name == "group":
                idx = args[0] if args else 0
                if not isinstance(idx, int) or isinstance(idx, bool):
                    raise Unsupported("named / symbolic group index")
                if idx == 0:
                    return recv.whole
                if 1 <= idx <= len(recv.grps):
                    return recv.grps[idx - 1]
                raise _Raise(IndexError("no such group"))
            raise Unsupported("match method %s" % name)
        if isinstance(recv, RawStr):
            if name == "strip" and (not args or args[0] is None):
                r = recv.core
                n = z3.Length(r)
                for c in (z3.Or(n == 0, z3.And([z3.SubString(r, 0, 1) != z3.StringVal(ch) for ch in WS])),
                          z3.Or(n == 0, z3.And([z3.SubString(r, n - 1, 1) != z3.StringVal(ch) for ch in WS]))):
                    self.side.append(c)
                self.bounds_used.add("the typed answer enters only through answer.strip() (CPython's strip is trusted); the lemma quantifies over every string without leading/trailing white space (the %d code points below U+0100 that CPython strips)" % len(WS))
                return SStr(r)
            raise Unsupported("the raw answer is used other than through .strip(): %s" % name)
        s = recv
        z = s.z
        if name == "split":
            if len(args) == 0 or args[0] is None:
                raise Unsupported("whitespace split")
            if len(args) > 1:
                raise Unsupported("split with maxsplit")
            sep = args[0]
            if not isinstance(sep, str):
                raise Unsupported("symbolic separator")
            if sep == "":
                raise _Raise(ValueError("empty separator"))
            return SSplit(s, sep)
        if name in ("partition", "rpartition") and len(args) == 1 and isinstance(args[0], str) and args[0]:
            sep = args[0]
            zs = z3.StringVal(sep)
            idx = z3.IndexOf(z, zs, 0) if name == "partition" else z3.LastIndexOf(z, zs)
            if self.branch(SBool(idx >= 0)):
                return (SStr(z3.SubString(z, 0, idx)), sep, SStr(z3.SubString(z, idx + len(sep), z3.Length(z) - idx - len(sep))))
            return (s, "", "") if name == "partition" else ("", "", s)
        if name == "startswith" and len(args) == 1:
            p = args[0]
            if isinstance(p, tuple):
                return SBool(z3.Or([z3.PrefixOf(zstr(x), z) for x in p]))
            return SBool(z3.PrefixOf(zstr(p), z))
        if name == "endswith" and len(args) == 1:
            p = args[0]
            if isinstance(p, tuple):
                return SBool(z3.Or([z3.SuffixOf(zstr(x), z) for x in p]))
            return SBool(z3.SuffixOf(zstr(p), z))
        if name in ("strip", "lstrip", "rstrip"):
            chars = WS if (not args or args[0] is None) else args[0]
            if not isinstance(chars, str):
                raise Unsupported("symbolic strip set")
            if not args or args[0] is None:
                self.bounds_used.add("str.strip(): whitespace = the %d code points below U+0100 that CPython strips; other Unicode spaces are treated as ordinary characters" % len(WS))
            return self.strip(s, name, chars)
        if name in ("upper", "lower") and not args:
            return self.casemap(s, name)
        if name in ("find", "index") and len(args) == 1:
            idx = z3.IndexOf(z, zstr(args[0]), 0)
            if name == "index" and self.branch(SBool(idx < 0)):
                raise _Raise(ValueError("substring not found"))
            return SInt(idx)
        if name == "format":
            return Opaque()
        if name == "replace" and len(args) == 2:
            raise Unsupported("str.replace on a symbolic string")
        if name == "encode":
            raise Unsupported("str.encode on a symbolic string")
        raise Unsupported("str method %s on a symbolic string" % name)

    def strip(self, s, which, chars):
        """r = s.strip(chars): s = pre ++ r ++ post with pre, post over `chars` and r neither
        starting nor ending with one of them (fresh variables; the constraints join the path)"""
        z = s.z
        cls = z3.Union(*[z3.Re(c) for c in chars]) if len(chars) > 1 else z3.Re(chars)
        r = self.new_str("strip")
        pre = self.new_str("pre") if which in ("strip", "lstrip") else None
        post = self.new_str("post") if which in ("strip", "rstrip") else None
        parts = ([pre] if pre is not None else []) + [r] + ([post] if post is not None else [])
        self.side.append(z == (z3.Concat(*parts) if len(parts) > 1 else parts[0]))

        def not_in_set(ch):
            return z3.And([ch != z3.StringVal(c) for c in chars])

        n = z3.Length(r)
        if pre is not None:
            self.side.append(z3.InRe(pre, z3.Star(cls)))
            self.side.append(z3.Or(n == 0, not_in_set(z3.SubString(r, 0, 1))))
        if post is not None:
            self.side.append(z3.InRe(post, z3.Star(cls)))
            self.side.append(z3.Or(n == 0, not_in_set(z3.SubString(r, n - 1, 1))))
        return SStr(r)

    def casemap(self, s, which):
        """ASCII case mapping, exact for strings of ASCII characters up to upper_len characters;
        longer or non-ASCII strings are cut off (the path assumes length <= bound and ASCII)"""
        z = s.z
        L = self.upper_len
        self.bounds_used.add("str.%s(): strings of at most %d characters, all below U+0080 (the assumption is part of the path condition: longer / non-ASCII answers are outside the lemma)" % (which, L))
        r = self.new_str(which)
        self.side.append(z3.Length(z) <= L)
        self.side.append(z3.Length(r) == z3.Length(z))
        for i in range(L):
            c = z3.StrToCode(z3.SubString(z, i, 1))
            d = z3.StrToCode(z3.SubString(r, i, 1))
            inr = z3.And(c >= 97, c <= 122) if which == "upper" else z3.And(c >= 65, c <= 90)
            delta = -32 if which == "upper" else 32
            self.side.append(z3.Implies(z3.Length(z) > i, z3.And(c < 128, d == z3.If(inr, c + delta, c))))
        return SStr(r)

    def call_re(self, f, args, kwargs):
        """re.match / re.fullmatch / re.search and the same methods of a compiled pattern on a
        symbolic string (subset: literals, classes, ., |, groups, repeats, ^ $ \\A \\Z at the
        ends; no flags, no back references, no look-around)"""
        if kwargs:
            raise Unsupported("keyword arguments to a regular-expression call")
        name = getattr(f, "__name__", "")
        slf = getattr(f, "__self__", None)
        if isinstance(slf, _re.Pattern):
            pat, rest = slf, list(args)
        else:
            if not args or not isinstance(args[0], (str, _re.Pattern)):
                raise Unsupported("symbolic regular expression")
            pat, rest = (args[0] if isinstance(args[0], _re.Pattern) else _re.compile(args[0])), list(args[1:])
        if name not in ("match", "fullmatch", "search") or len(rest) != 1 or not isinstance(rest[0], SStr):
            raise Unsupported("regular-expression call %s" % name)
        if pat.flags & ~_re.UNICODE:
            raise Unsupported("regular-expression flags")
        return self.re_match(pat.pattern, name, rest[0])

    def re_match(self, pattern, mode, s):
        try:
            import re._parser as sre_parse  # python >= 3.11
            import re._constants as sre_c
        except ImportError:  # pragma: no cover
            import sre_constants as sre_c
            import sre_parse
        items = list(sre_parse.parse(pattern))
        start_anch = end_anch = None
        if items and items[0][0] is sre_c.AT and items[0][1] in (sre_c.AT_BEGINNING, sre_c.AT_BEGINNING_STRING):
            start_anch = items.pop(0)[1]
        if items and items[-1][0] is sre_c.AT and items[-1][1] in (sre_c.AT_END, sre_c.AT_END_STRING):
            end_anch = items.pop()[1]
        conv = _ReConv(sre_c)
        parts = []  # (z3 regex, is top-level group)
        for op, av in items:
            if op is sre_c.SUBPATTERN:
                parts.append((conv.seq(av[3]), True))
            else:
                parts.append((conv.item(op, av), False))
        self.bounds_used.add("regular expressions: translated to z3 regular expressions (classes \\d \\w \\s over the code points below U+30000 that CPython puts in them); "
                             "capture groups only at the top level, their boundaries are any decomposition the pattern allows (exact for unambiguous patterns)")
        anyre = z3.Full(z3.ReSort(z3.StringSort()))
        z = s.z
        vars_ = [self.new_str("re") for _ in parts]
        cons = [z3.InRe(v, r) for v, (r, _) in zip(vars_, parts)]
        segs = list(vars_)
        if mode == "search" and start_anch is None:
            pre = self.new_str("repre")
            segs = [pre] + segs
        if mode == "fullmatch" or end_anch is sre_c.AT_END_STRING:
            pass
        elif end_anch is sre_c.AT_END:
            tail = self.new_str("retail")
            cons.append(z3.Or(tail == z3.StringVal(""), tail == z3.StringVal("\n")))
            segs = segs + [tail]
        else:
            segs = segs + [self.new_str("retail")]
        whole = z3.Concat(*[r for r, _ in parts]) if len(parts) > 1 else (parts[0][0] if parts else z3.Re(""))
        full = whole
        if mode == "search" and start_anch is None:
            full = z3.Concat(anyre, full)
        if mode == "fullmatch" or end_anch is sre_c.AT_END_STRING:
            pass
        elif end_anch is sre_c.AT_END:
            full = z3.Concat(full, z3.Option(z3.Re("\n")))
        else:
            full = z3.Concat(full, anyre)
        if not self.branch(SBool(z3.InRe(z, full))):
            return None
        self.side.append(z == (z3.Concat(*segs) if len(segs) > 1 else segs[0]))
        self.side.extend(cons)
        groups = [SStr(v) for v, (_, g) in zip(vars_, parts) if g]
        whole_match = SStr(z3.Concat(*vars_) if len(vars_) > 1 else (vars_[0] if vars_ else z3.StringVal("")))
        return SMatch(whole_match, groups)

    def compare(self, op, a, b):
        if isinstance(op, (ast.Eq, ast.NotEq)):
            neg = isinstance(op, ast.NotEq)
            if isinstance(a, SStr) or isinstance(b, SStr):
                if isinstance(a, (SStr, str)) and isinstance(b, (SStr, str)):
                    c = zstr(a) == zstr(b)
                    return SBool(z3.Not(c) if neg else c)
                if isinstance(a, Opaque) or isinstance(b, Opaque):
                    raise Unsupported("comparison with opaque text")
                return neg  # a str never equals a non-str
            if isinstance(a, SInt) or isinstance(b, SInt):
                if isinstance(a, (SInt, int)) and isinstance(b, (SInt, int)) and not isinstance(a, bool) and not isinstance(b, bool):
                    c = zint(a) == zint(b)
                    return SBool(z3.Not(c) if neg else c)
                raise Unsupported("int comparison with %s" % type(b).__name__)
            if isinstance(a, SBool) or isinstance(b, SBool):
                raise Unsupported("== on symbolic bool")
            if is_sym(a) or is_sym(b) or isinstance(a, Opaque) or isinstance(b, Opaque):
                raise Unsupported("== on %s / %s" % (type(a).__name__, type(b).__name__))
            return (a != b) if neg else (a == b)
        if isinstance(op, (ast.In, ast.NotIn)):
            neg = isinstance(op, ast.NotIn)
            r = self.contains(b, a)
            if isinstance(r, SBool):
                return SBool(z3.Not(r.z)) if neg else r
            return (not r) if neg else r
        if isinstance(op, (ast.Is, ast.IsNot)):
            neg = isinstance(op, ast.IsNot)
            if is_sym(a) or is_sym(b):
                r = a is b
                if not r and (a is None or b is None):
                    r = False
                elif not r:
                    raise Unsupported("identity of symbolic values")
                return (not r) if neg else r
            return (a is not b) if neg else (a is b)
        if isinstance(op, (ast.Lt, ast.LtE, ast.Gt, ast.GtE)):
            if isinstance(a, (SInt, int)) and isinstance(b, (SInt, int)) and (isinstance(a, SInt) or isinstance(b, SInt)):
                x, y = zint(a), zint(b)
                return SBool({ast.Lt: x < y, ast.LtE: x <= y, ast.Gt: x > y, ast.GtE: x >= y}[type(op)])
            if is_sym(a) or is_sym(b):
                raise Unsupported("ordering of symbolic strings")
            import operator

            try:
                return {ast.Lt: operator.lt, ast.LtE: operator.le, ast.Gt: operator.gt, ast.GtE: operator.ge}[type(op)](a, b)
            except TypeError as x:
                raise _Raise(x)
        raise Unsupported("comparison operator")

    def contains(self, container, x):
        if isinstance(container, SymMap):
            return self.map_contains(container, x)
        if isinstance(container, LocalDict):
            container = container.d
        if isinstance(container, SStr):
            if isinstance(x, (SStr, str)):
                return SBool(z3.Contains(container.z, zstr(x)))
            raise _Raise(TypeError("'in <string>' requires string as left operand"))
        if isinstance(container, str):
            if isinstance(x, SStr):
                return SBool(z3.Contains(z3.StringVal(container), x.z))
            try:
                return x in container
            except TypeError as e:
                raise _Raise(e)
        if isinstance(container, (SSplit, SInt, SBool, Opaque)):
            raise Unsupported("membership in %s" % type(container).__name__)
        if isinstance(x, SStr):
            if isinstance(container, dict):
                # concretise: the key is usually used for a lookup next
                c = self.choose(x, [k for k in container.keys() if isinstance(k, str)])
                return c is not None
            try:
                items = list(container)
            except TypeError as e:
                raise _Raise(e)
            strs = [k for k in items if isinstance(k, str)]
            syms = [k for k in items if isinstance(k, SStr)]
            alts = [x.z == z3.StringVal(k) for k in strs] + [x.z == k.z for k in syms]
            return SBool(z3.Or(alts)) if alts else False
        if is_sym(x) or isinstance(x, Opaque):
            raise Unsupported("membership of %s" % type(x).__name__)
        try:
            items = container
            if isinstance(container, (list, tuple, set, frozenset)) and any(isinstance(k, SStr) for k in container):
                if isinstance(x, str):
                    return SBool(z3.Or([zstr(k) == z3.StringVal(x) for k in container if isinstance(k, (SStr, str))]))
            return x in items
        except TypeError as e:
            raise _Raise(e)

    def subscript(self, o, k):
        if isinstance(o, SymMap):
            return self.map_load(o, k)
        if isinstance(o, LocalDict):
            if isinstance(k, SStr):
                k = self.choose(k, [x for x in o.d if isinstance(x, str)])
                if k is None:
                    raise _Raise(KeyError("?"))
            if k in o.d:
                return o.d[k]
            raise _Raise(KeyError(k))
        if isinstance(o, SSplit):
            if not isinstance(k, int) or isinstance(k, bool):
                raise Unsupported("symbolic index into a split result")
            if k >= 0:
                # piece k exists iff there are at least k+1 pieces
                total = k + 1 + o.start
                pieces, _ = self.split_pieces(o, total)
                # condition "at least total pieces": the first total-1 separators exist
                s = o.s.z
                sep = z3.StringVal(o.sep)
                start = z3.IntVal(0)
                conds = []
                for i in range(total - 1):
                    idx = z3.IndexOf(s, sep, start)
                    conds.append(idx >= 0)
                    start = idx + len(o.sep)
                if conds and not self.branch(SBool(z3.And(conds))):
                    raise _Raise(IndexError("list index out of range"))
                if total - 1 < len(pieces) - 1 or True:
                    # piece number total-1: up to the next separator or the end
                    nxt = z3.IndexOf(s, sep, start)
                    end = z3.If(nxt >= 0, nxt, z3.Length(s))
                    return SStr(z3.simplify(z3.SubString(s, start, end - start)))
            if k == -1:
                s = o.s.z
                sep = z3.StringVal(o.sep)
                li = z3.LastIndexOf(s, sep)
                if o.start > 0:
                    # at least start+1 pieces needed
                    n = self.length(o)  # forks over small piece counts
                    if n < 1:
                        raise _Raise(IndexError("list index out of range"))
                return SStr(z3.If(li >= 0, z3.SubString(s, li + len(o.sep), z3.Length(s) - li - len(o.sep)), s))
            raise Unsupported("negative index %d into a split result" % k)
        if isinstance(o, SStr):
            if isinstance(k, int) and not isinstance(k, bool):
                n = z3.Length(o.z)
                if k >= 0:
                    if not self.branch(SBool(n > k)):
                        raise _Raise(IndexError("string index out of range"))
                    return SStr(z3.SubString(o.z, k, 1))
                if not self.branch(SBool(n >= -k)):
                    raise _Raise(IndexError("string index out of range"))
                return SStr(z3.SubString(o.z, n + k, 1))
            raise Unsupported("symbolic string index")
        if isinstance(k, SStr):
            if isinstance(o, dict):
                c = self.choose(k, [x for x in o.keys() if isinstance(x, str)])
                if c is None:
                    raise _Raise(KeyError("?"))
                return o[c]
            raise Unsupported("symbolic key into %s" % type(o).__name__)
        if is_sym(k) or is_sym(o) or isinstance(o, Opaque):
            raise Unsupported("subscript of %s by %s" % (type(o).__name__, type(k).__name__))
        try:
            return o[k]
        except (KeyError, IndexError, TypeError) as x:
            raise _Raise(x)

    def slice(self, o, lo, hi):
        if isinstance(o, SSplit):
            if hi is not None or not isinstance(lo, int) or lo < 0:
                raise Unsupported("slice of a split result other than [k:]")
            return SSplit(o.s, o.sep, o.start + lo)
        if isinstance(o, SStr):
            n = z3.Length(o.z)

            def norm(v, default):
                if v is None:
                    return default
                if isinstance(v, SInt):
                    x = v.z
                    return z3.If(x < 0, z3.If(n + x < 0, 0, n + x), z3.If(x > n, n, x))
                if isinstance(v, int) and not isinstance(v, bool):
                    if v >= 0:
                        return z3.If(n < v, n, z3.IntVal(v))
                    return z3.If(n + v < 0, z3.IntVal(0), n + v)
                raise Unsupported("slice bound")

            a = norm(lo, z3.IntVal(0))
            b = norm(hi, n)
            return SStr(z3.If(b > a, z3.SubString(o.z, a, b - a), z3.StringVal("")))
        if isinstance(o, str) and (isinstance(lo, SInt) or isinstance(hi, SInt)):
            return self.slice(SStr(z3.StringVal(o)), lo, hi)
        if is_sym(o) or isinstance(lo, SInt) or isinstance(hi, SInt):
            raise Unsupported("slice of %s" % type(o).__name__)
        try:
            return o[lo:hi]
        except TypeError as x:
            raise _Raise(x)

    def binop(self, op, a, b):
        if isinstance(op, ast.Add):
            if isinstance(a, (SStr, str)) and isinstance(b, (SStr, str)) and (isinstance(a, SStr) or isinstance(b, SStr)):
                return SStr(z3.Concat(zstr(a), zstr(b)))
            if isinstance(a, Opaque) or isinstance(b, Opaque):
                return Opaque()
            if isinstance(a, (SInt, int)) and isinstance(b, (SInt, int)) and (isinstance(a, SInt) or isinstance(b, SInt)):
                return SInt(zint(a) + zint(b))
        if isinstance(op, ast.Sub) and isinstance(a, (SInt, int)) and isinstance(b, (SInt, int)) and (isinstance(a, SInt) or isinstance(b, SInt)):
            return SInt(zint(a) - zint(b))
        if isinstance(op, ast.Mod) and isinstance(a, str) and (is_sym(b) or isinstance(b, Opaque) or (isinstance(b, tuple) and any(is_sym(x) or isinstance(x, Opaque) for x in b))):
            return Opaque()
        if is_sym(a) or is_sym(b) or isinstance(a, Opaque) or isinstance(b, Opaque):
            raise Unsupported("operator %s on symbolic values" % type(op).__name__)
        import operator

        fn = {ast.Add: operator.add, ast.Sub: operator.sub, ast.Mult: operator.mul, ast.Div: operator.truediv, ast.FloorDiv: operator.floordiv, ast.Mod: operator.mod, ast.Pow: operator.pow}.get(type(op))
        if fn is None:
            raise Unsupported("operator %s" % type(op).__name__)
        try:
            return fn(a, b)
        except Exception as x:  # noqa: BLE001
            raise _Raise(x)


class SMatch(object):
    """a successful regular-expression match on a symbolic string"""

    def __init__(self, whole, groups):
        self.whole = whole
        self.grps = groups


class _ReConv(object):
    """sre_parse tree -> z3 regular expression"""

    def __init__(self, c):
        self.c = c
        self.allchar = z3.AllChar(z3.ReSort(z3.StringSort()))

    def seq(self, items):
        rs = [self.item(op, av) for op, av in items]
        if not rs:
            return z3.Re("")
        return z3.Concat(*rs) if len(rs) > 1 else rs[0]

    def cls(self, pred):
        key = pred.__name__
        cache = _ReConv._cache
        if key not in cache:
            ranges = []
            lo = None
            for cp in range(0x30000):
                if pred(chr(cp)):
                    if lo is None:
                        lo = cp
                elif lo is not None:
                    ranges.append((lo, cp - 1))
                    lo = None
            if lo is not None:
                ranges.append((lo, 0x2FFFF))
            cache[key] = ranges
        rs = [z3.Range(chr(a), chr(b)) if a != b else z3.Re(chr(a)) for a, b in cache[key]]
        return z3.Union(*rs) if len(rs) > 1 else rs[0]

    _cache = {}

    def category(self, cat):
        c = self.c

        def digit(ch):
            return ch.isdecimal()

        def word(ch):
            return ch.isalnum() or ch == "_"

        def space(ch):
            return ch.isspace()

        table = {c.CATEGORY_DIGIT: (digit, False), c.CATEGORY_NOT_DIGIT: (digit, True), c.CATEGORY_WORD: (word, False), c.CATEGORY_NOT_WORD: (word, True),
                 c.CATEGORY_SPACE: (space, False), c.CATEGORY_NOT_SPACE: (space, True)}
        if cat not in table:
            raise Unsupported("regular-expression category %s" % cat)
        pred, neg = table[cat]
        r = self.cls(pred)
        return z3.Diff(self.allchar, r) if neg else r

    def item(self, op, av):
        c = self.c
        if op is c.LITERAL:
            return z3.Re(chr(av))
        if op is c.NOT_LITERAL:
            return z3.Diff(self.allchar, z3.Re(chr(av)))
        if op is c.ANY:
            return z3.Diff(self.allchar, z3.Re("\n"))
        if op is c.IN:
            neg = False
            rs = []
            for o2, a2 in av:
                if o2 is c.NEGATE:
                    neg = True
                elif o2 is c.LITERAL:
                    rs.append(z3.Re(chr(a2)))
                elif o2 is c.RANGE:
                    rs.append(z3.Range(chr(a2[0]), chr(a2[1])))
                elif o2 is c.CATEGORY:
                    rs.append(self.category(a2))
                else:
                    raise Unsupported("regular-expression class item %s" % o2)
            r = z3.Union(*rs) if len(rs) > 1 else rs[0]
            return z3.Diff(self.allchar, r) if neg else r
        if op is c.BRANCH:
            alts = [self.seq(a) for a in av[1]]
            return z3.Union(*alts) if len(alts) > 1 else alts[0]
        if op is c.SUBPATTERN:
            if av[1] or av[2]:
                raise Unsupported("regular-expression inline flags")
            return self.seq(av[3])
        if op in (c.MAX_REPEAT, c.MIN_REPEAT):
            lo, hi, sub = av
            r = self.seq(sub)
            if hi is c.MAXREPEAT:
                if lo == 0:
                    return z3.Star(r)
                if lo == 1:
                    return z3.Plus(r)
                return z3.Concat(z3.Loop(r, lo, lo), z3.Star(r))
            if (lo, hi) == (0, 1):
                return z3.Option(r)
            return z3.Loop(r, lo, hi)
        raise Unsupported("regular-expression construct %s" % (op,))


class Obj(object):
    """an instance of a class of the module under analysis whose attributes are tracked here
    (methods are interpreted from source)"""

    def __init__(self, cls, attrs=None):
        self.cls = cls
        self.attrs = dict(attrs or {})
        self.stores = []


class LocalDict(object):
    """a dict created by the interpreted code itself (dict display)"""

    def __init__(self, d):
        self.d = d


class BoundMethod(object):
    def __init__(self, recv, fn):
        self.recv = recv
        self.fn = fn


class SymMethod(object):
    def __init__(self, recv, name):
        self.recv = recv
        self.name = name


def _lookup_method(cls, name):
    import types

    for k in cls.__mro__:
        if name in k.__dict__:
            f = k.__dict__[name]
            if isinstance(f, types.FunctionType):
                return f
            if isinstance(f, (staticmethod, classmethod)):
                raise Unsupported("static/class method %s" % name)
            return None
    return None


def _load(t):
    import copy

    t2 = copy.deepcopy(t)
    for n in ast.walk(t2):
        if hasattr(n, "ctx"):
            n.ctx = ast.Load()
    return t2


def _index(sub):
    s = sub.slice
    if isinstance(s, ast.Index):  # pragma: no cover (python < 3.9)
        return s.value
    return s


# -- solver helpers ------------------------------------------------------------------------------


class Decider(object):
    """z3 queries with timing / counting; `unknown` is reported, never read as unsat"""

    def __init__(self, timeout_ms=60000, seed=0, first_ms=8000):
        self.timeout_ms = timeout_ms
        self.first_ms = min(first_ms, timeout_ms)  # z3's share; cvc5 gets timeout_ms after an `unknown`
        self.seed = seed
        self.by_kind = {}
        self.time = 0.0
        self.smt2 = []  # (name, smt2 text) of the queries, for the second solver

    def check(self, constraints, kind, name=None, keep=False):
        s = z3.Solver()
        s.set("timeout", self.first_ms)
        s.set("random_seed", self.seed % 100003)
        for c in constraints:
            s.add(c)
        t0 = time.time()
        r = s.check()
        dt = time.time() - t0
        self.time += dt
        res = str(r)
        if res == "unknown" and kind != "string-feasibility":
            # second engine for the hard unsatisfiable cases (regular-expression side conditions):
            # the cvc5 binary on the same query as SMT-LIB2 text; only its `unsat` is used
            t1 = time.time()
            if self.cvc5_unsat(s.to_smt2()):
                res = "unsat"
                kind = kind + "[cvc5]"
            self.time += time.time() - t1
        d = self.by_kind.setdefault(kind, {})
        d[res] = d.get(res, 0) + 1
        if keep:
            self.smt2.append((name or kind, s.to_smt2()))
        model = s.model() if res == "sat" else None
        return res, model, dt

    def cvc5_unsat(self, text):
        import os
        import subprocess
        import tempfile

        fd, path = tempfile.mkstemp(prefix="verif_str_", suffix=".smt2", dir="/var/tmp")
        os.close(fd)
        try:
            with open(path, "w") as f:
                f.write("(set-logic ALL)\n" + text)
            try:
                p = subprocess.run(["cvc5", "--strings-exp", "--tlimit=%d" % self.timeout_ms, path], capture_output=True, text=True, timeout=self.timeout_ms / 1000.0 + 30)
            except (subprocess.TimeoutExpired, OSError):
                return False
            out = p.stdout.strip().splitlines()
            return bool(out) and out[0] == "unsat" and "(error" not in p.stdout
        finally:
            os.unlink(path)

    def stats(self):
        tot = sum(sum(d.values()) for d in self.by_kind.values())
        unk = sum(d.get("unknown", 0) for d in self.by_kind.values())
        return {"by_kind": self.by_kind, "time_hist": {}, "total": tot, "unknown": unk, "solver_time_s": round(self.time, 3), "merges_proved": 0, "false_candidates": 0,
                "product_witnesses": 0, "undecided_feasibility": 0, "partition_tag_hits": 0, "pattern_extensions": 0}


def model_str(model, term):
    v = model.eval(term, model_completion=True)
    if z3.is_string_value(v):
        return v.as_string() if not hasattr(v, "py_value") else v.py_value()
    raise Unsupported("no string value for %s" % term)


def py_string(model, term):
    """python str of a z3 string value (z3 escapes non-printable characters as \\u{..})"""
    v = model.eval(term, model_completion=True)
    s = v.as_string()
    return _re.sub(r"\\u\{([0-9a-fA-F]+)\}", lambda mo: chr(int(mo.group(1), 16)), s)
