"""
Builtins, library overrides and operations on symbolic containers / structured strings.
"""

import ast
import builtins as _bi
import collections
import copy as _copy
import json as _json
import operator

from . import structstr as SS
from .values import (
    UNBOUND,
    Cond,
    Opaque,
    Pair,
    StructStr,
    SymDict,
    SymIter,
    SymList,
    U,
    Unsupported,
    current_epoch,
    left,
    right,
    vkey,
)

MUTATORS = {
    "append", "extend", "insert", "remove", "pop", "clear", "sort", "reverse", "update", "add",
    "discard", "setdefault", "popitem", "__setitem__", "__delitem__", "move_to_end",
    "difference_update", "intersection_update", "symmetric_difference_update", "appendleft",
}


def _I():
    from . import interp as I

    return I


# -------------------------------------------------------------------------------------------------
# symbolic dict / list primitives
# -------------------------------------------------------------------------------------------------


def symdict_set(it, d, key, val, pc):
    vc = it.vc
    if d.epoch < current_epoch():
        it.log_effect("dict-store", d, key, pc)
    if type(key) is U and len(key.alts) > 1 and d.keys:
        d.symkeys = True
    for g, k in vc.alts(key):
        if type(k) is Pair or isinstance(k, (SymList, SymDict, StructStr, Opaque)):
            raise Unsupported("symbolic dict key %r" % (k,))
        c = vc.c_andg(pc, g)
        if vc.c_is_false(c):
            continue
        if k not in d.pres:
            d.keys.append(k)
            d.pres[k] = vc.CF
            d.vals[k] = UNBOUND
        if c is vc.CT:
            d.pres[k] = vc.CT
            d.vals[k] = val
        else:
            d.pres[k] = vc.c_or(d.pres[k], c)
            d.vals[k] = vc.select(c, val, d.vals[k])


def _lookup1(it, d, k):
    vc = it.vc
    if type(k) is Pair:
        from .values import mkpair

        vl, pl = _lookup1(it, d, k.l)
        vr, pr = _lookup1(it, d, k.r)
        lv = vl
        rv = vr
        # left component of the left lookup, right component of the right lookup
        val = vc.lift(lambda a, b: 0, [], vc.CT, it.sink) if False else None
        la = left_part(vc, vl)
        ra = right_part(vc, vr)
        val = pair_of(vc, la, ra)
        return val, Cond(pl.l, pr.r)
    try:
        hash(k)
    except TypeError:
        raise Unsupported("unhashable key %r" % (k,))
    if k in d.pres:
        return d.vals[k], d.pres[k]
    return UNBOUND, vc.CF


def left_part(vc, v):
    if type(v) is U:
        return vc.mk_union([(g, left(l)) for g, l in v.alts], sweep=False)
    return left(v)


def right_part(vc, v):
    if type(v) is U:
        return vc.mk_union([(g, right(l)) for g, l in v.alts], sweep=False)
    return right(v)


def pair_of(vc, a, b):
    """value whose left component is a's and right component is b's"""
    from .values import mkpair

    if type(a) is not U and type(b) is not U:
        return mkpair(a, b)
    out = []
    for ga, la in vc.alts(a):
        for gb, lb in vc.alts(b):
            g = vc.m.AND(ga, gb)
            if g is vc.F:
                continue
            out.append((g, mkpair(la, lb)))
    return vc.mk_union(out, sweep=False)


def symdict_lookup(it, d, key, pc):
    """returns (Value, present Cond) for d[key]"""
    vc = it.vc
    if type(key) is not U:
        return _lookup1(it, d, key)
    outs = []
    pres = vc.CF
    for g, k in key.alts:
        v, p = _lookup1(it, d, k)
        if p is vc.CF:
            continue
        outs.append((g, v))
        pres = vc.c_or(pres, vc.c_andg(p, g))
    val = vc.mk_union(outs, sweep=False)
    return val, pres


def symdict_del(it, d, key, pc):
    vc = it.vc
    if d.epoch < current_epoch():
        it.log_effect("dict-del", d, key, pc)
    for g, k in vc.alts(key):
        c = vc.c_andg(pc, g)
        if k in d.pres:
            d.pres[k] = vc.c_and(d.pres[k], vc.c_not(c))


def symlist_append(it, lst, v, pc):
    vc = it.vc
    if lst.epoch < current_epoch():
        it.log_effect("list-append", lst, None, pc)
    if pc is vc.CT:
        lst.elems.append([vc.CT, v])
        return
    # an element appended under a condition exclusive with the previous optional element's can
    # share its slot (at most one of them is there)
    if lst.elems and pc.l is pc.r:
        lp, lv = lst.elems[-1]
        if lp is not vc.CT and lp.l is lp.r:
            both = vc.m.AND(lp.l, pc.l)
            if both is vc.F or (both.sig == 0 and vc.m.is_sat(both, "slot-merge") is False):
                np_ = vc.c_sweep(vc.c_or(lp, pc))
                if vc.m.find(np_.l) is vc.T:
                    np_ = vc.CT
                lst.elems[-1] = [np_, vc.select(pc, v, lv)]
                return
    lst.elems.append([pc, v])


def symlist_extend(it, lst, other, pc):
    for pres, v in it.iter_items(other, it.frames[-1], pc):
        symlist_append(it, lst, v, it.vc.c_and(pc, pres))


def all_present(it, lst):
    vc = it.vc
    return all(p is vc.CT or vc.c_is_true(p) for p, _ in lst.elems)


def all_present_under(it, lst, pc):
    """every element is present wherever pc holds"""
    vc = it.vc
    for p, _ in lst.elems:
        if p is vc.CT or vc.c_is_true(p):
            continue
        if not vc.c_is_false(vc.c_and(pc, vc.c_not(p))):
            return False
    return True


def symlist_positions(it, lst, n):
    """values at positions 0..n-1 (UNBOUND where the list is shorter) and Cond 'length == n'"""
    vc = it.vc
    CF = vc.CF
    # cnt[k]: exactly k elements present so far (k in 0..n), over[...] more than n
    cnt = [vc.CT] + [CF] * n
    over = CF
    slots = [[] for _ in range(n)]
    for pres, v in lst.elems:
        npres = vc.c_not(pres)
        new = [CF] * (n + 1)
        for k in range(n + 1):
            if cnt[k] is CF:
                continue
            stay = vc.c_and(cnt[k], npres)
            new[k] = vc.c_or(new[k], stay)
            here = vc.c_and(cnt[k], pres)
            if vc.c_is_false(here):
                continue
            if k < n:
                slots[k].append((here, v))
                new[k + 1] = vc.c_or(new[k + 1], here)
            else:
                over = vc.c_or(over, here)
        cnt = new
    vals = []
    for k in range(n):
        vals.append(vc.mk_union([(vc.c_any(c), v) for c, v in slots[k]], sweep=False))
    return vals, cnt[n]


def symlist_len(it, lst):
    vc = it.vc
    if all_present(it, lst):
        return len(lst.elems)
    n = len(lst.elems)
    cnt = [vc.CT] + [vc.CF] * n
    for pres, v in lst.elems:
        npres = vc.c_not(pres)
        new = [vc.CF] * (n + 1)
        for k in range(n + 1):
            if cnt[k] is vc.CF:
                continue
            new[k] = vc.c_or(new[k], vc.c_and(cnt[k], npres))
            if k < n:
                new[k + 1] = vc.c_or(new[k + 1], vc.c_and(cnt[k], pres))
        cnt = new
    return vc.mk_union([(vc.c_any(c), k) for k, c in enumerate(cnt)], sweep=False)


def to_real_seq(it, v):
    """SymList with all elements present and deep-concrete -> real list/tuple, else None"""
    I = _I()
    if isinstance(v, SymList) and all_present(it, v) and all(I.deep_concrete(e) for _, e in v.elems):
        items = [e for _, e in v.elems]
        return tuple(items) if v.is_tuple else items
    return None


# -------------------------------------------------------------------------------------------------
# item access
# -------------------------------------------------------------------------------------------------


def get_item(it, recv, key, pc):
    vc = it.vc
    t = type(recv)
    if t is SymDict:
        val, pres = symdict_lookup(it, recv, key, pc)
        bad = vc.c_and(pc, vc.c_not(pres))
        if not vc.c_is_false(bad):
            it.raise_exc(bad, KeyError(key if type(key) is not U else "<symbolic key>"))
        return val
    if t is SymList:
        if type(key) is U:
            outs = []
            for g, k in key.alts:
                apc = vc.c_andg(pc, g)
                if vc.c_is_false(apc):
                    continue
                outs.append((g, get_item(it, recv, k, apc)))
            return vc.mk_union(outs, sweep=False)
        if isinstance(key, slice):
            if all_present(it, recv):
                return SymList([list(e) for e in recv.elems[key]], is_tuple=recv.is_tuple)
            if key.step is None and key.stop is None and isinstance(key.start, int) and key.start >= 0:
                k = key.start
                if all(p is vc.CT or vc.c_is_true(p) for p, _ in recv.elems[:k]):
                    return SymList([list(e) for e in recv.elems[k:]], is_tuple=recv.is_tuple)
            raise Unsupported("slice of list with optional elements")
        if isinstance(key, int) and not isinstance(key, bool):
            if all_present(it, recv):
                try:
                    return recv.elems[key][1]
                except IndexError as e:
                    it.raise_exc(pc, e)
                    return UNBOUND
            if key >= 0:
                vals, exact = symlist_positions(it, recv, key + 1)
                v = vals[key]
                # IndexError where fewer elements exist
                present = vc.CF
                for g, leaf in vc.alts(v):
                    if leaf is not UNBOUND:
                        present = vc.c_or(present, Cond(g))
                if v is UNBOUND:
                    present = vc.CF
                bad = vc.c_and(pc, vc.c_not(present))
                if not vc.c_is_false(bad):
                    it.raise_exc(bad, IndexError("list index out of range"))
                return v
            raise Unsupported("negative index into list with optional elements")
        raise Unsupported("list index %r" % (key,))
    if t is StructStr or t is Opaque:
        raise Unsupported("subscript of %r" % (recv,))
    if t is U and _I().has_special(recv):
        outs = []
        for g, leaf in recv.alts:
            apc = vc.c_andg(pc, g)
            if vc.c_is_false(apc):
                continue
            outs.append((g, get_item(it, leaf, key, apc)))
        return vc.mk_union(outs, sweep=False)
    if isinstance(recv, (_I().Obj,)):
        gi, _ = recv.cls.lookup("__getitem__")
        if gi is not None:
            return it.call_function(gi, [recv, key], {}, pc)
        it.raise_exc(pc, TypeError("object is not subscriptable"))
        return UNBOUND
    return vc.lift(operator.getitem, [recv, key], pc, it.sink)


def set_item(it, recv, key, val, pc):
    vc = it.vc
    t = type(recv)
    if t is SymDict:
        symdict_set(it, recv, key, val, pc)
        return
    if t is SymList:
        if isinstance(key, int) and all_present(it, recv):
            if recv.epoch < current_epoch():
                it.log_effect("list-store", recv, key, pc)
            try:
                old = recv.elems[key][1]
            except IndexError as e:
                it.raise_exc(pc, e)
                return
            recv.elems[key][1] = vc.select(pc, val, old)
            return
        raise Unsupported("list item store")
    if t is U:
        for g, leaf in recv.alts:
            set_item(it, leaf, key, val, vc.c_andg(pc, g))
        return
    if t is StructStr or t is Opaque or t is Pair:
        raise Unsupported("item store on %r" % (recv,))
    # real container: library-/module-level object mutated
    it.log_effect("native-item-store", recv, key, pc)
    I = _I()
    if pc is vc.CT and I.deep_concrete(key) and I.deep_concrete(val) and type(key) is not U:
        try:
            recv[key] = val
        except Exception as e:  # noqa: BLE001
            it.raise_exc(pc, e)
        return
    raise Unsupported("symbolic store into real container %s" % type(recv).__name__)


def del_item(it, recv, key, pc):
    if type(recv) is SymDict:
        val, pres = symdict_lookup(it, recv, key, pc)
        bad = it.vc.c_and(pc, it.vc.c_not(pres))
        if not it.vc.c_is_false(bad):
            it.raise_exc(bad, KeyError("del"))
        symdict_del(it, recv, key, it.live(it.frames[-1], pc))
        return
    it.log_effect("native-item-del", recv, key, pc)
    raise Unsupported("del on %r" % (type(recv).__name__,))


def contains(it, container, item, pc):
    vc = it.vc
    t = type(container)
    fr = it.frames[-1]
    if t is SymDict:
        val, pres = symdict_lookup(it, container, item, pc)
        return it.bool_value(pres)
    if t is SymList:
        res = vc.CF
        for p, e in container.elems:
            c = it.truth(it.compare(ast.Eq, e, item, fr, pc), fr, pc)
            res = vc.c_or(res, vc.c_and(p, c))
        return it.bool_value(res)
    if t is StructStr:
        if isinstance(item, str) and container.sep not in item and item != "":
            res = vc.CF
            for g, s in container.chunks:
                c = SS.leaf_pred(vc, s, lambda x, item=item: item in x)
                res = vc.c_or(res, vc.c_andg(c, g))
            return it.bool_value(res)
        raise Unsupported("'in' on structured string")
    if t is Opaque:
        raise Unsupported("'in' on opaque")
    if t is U and _I().has_special(container):
        outs = []
        for g, leaf in container.alts:
            apc = vc.c_andg(pc, g)
            if vc.c_is_false(apc):
                continue
            outs.append((g, contains(it, leaf, item, apc)))
        return vc.mk_union(outs, sweep=False)
    if _I().has_special(item):
        I = _I()
        if isinstance(item, I.Obj) or type(item) is U:
            # membership of an object in a real container: identity / __eq__ based
            try:
                items = list(container)
            except Exception as e:  # noqa: BLE001
                it.raise_exc(pc, e)
                return UNBOUND
            res = vc.CF
            for e in items:
                res = vc.c_or(res, it.truth(it.compare(ast.Eq, e, item, fr, pc), fr, pc))
            return it.bool_value(res)
        if type(item) is StructStr:
            try:
                items = list(container)
            except Exception as e:  # noqa: BLE001
                it.raise_exc(pc, e)
                return UNBOUND
            res = vc.CF
            for e in items:
                if isinstance(e, str):
                    res = vc.c_or(res, SS.eq_const(vc, item, e))
            return it.bool_value(res)
        raise Unsupported("membership test of %r" % (item,))
    return vc.lift(lambda c, i: i in c, [container, item], pc, it.sink)


# -------------------------------------------------------------------------------------------------
# comparisons / binary operators on special values
# -------------------------------------------------------------------------------------------------


def leaf_eq(it, a, b, pc):
    """Cond: a == b for leaves at least one of which is special"""
    vc = it.vc
    I = _I()
    ta, tb = type(a), type(b)
    if a is b:
        if ta is Opaque and a.kind not in ("hash",):
            return vc.CT
        return vc.CT
    if ta is StructStr:
        if tb is StructStr:
            return SS.eq_ss(vc, a, b)
        if tb is U or tb is Pair:
            outs = vc.CF
            for g, leaf in vc.alts(b):
                if type(leaf) is Pair:
                    raise Unsupported("StructStr == pair")
                c = SS.eq_const(vc, a, leaf) if isinstance(leaf, str) else vc.CF
                outs = vc.c_or(outs, vc.c_andg(c, g))
            return outs
        if isinstance(b, str):
            return SS.eq_const(vc, a, b)
        if tb is Opaque:
            raise Unsupported("StructStr == opaque")
        return vc.CF
    if tb is StructStr:
        return leaf_eq(it, b, a, pc)
    if ta is Opaque or tb is Opaque:
        if ta is Opaque and tb is Opaque and a.kind == b.kind == "hash":
            return it.truth(it.compare(ast.Eq, a.args[0], b.args[0], it.frames[-1], pc), it.frames[-1], pc)
        if ta is Opaque and tb is Opaque and a.kind == b.kind and len(a.args) == len(b.args):
            # uninterpreted function of its arguments: equal arguments => equal results; anything
            # else is not decidable here
            fr = it.frames[-1]
            alleq = vc.CT
            for x, y in zip(a.args, b.args):
                alleq = vc.c_and(alleq, it.truth(it.compare(ast.Eq, x, y, fr, pc), fr, pc))
            if vc.c_is_true(alleq):
                return vc.CT
        raise Unsupported("comparison of opaque values %r %r" % (a, b))
    if isinstance(a, I.Obj):
        eq, _ = a.cls.lookup("__eq__")
        if isinstance(eq, I.FuncVal):
            r = it.call_function(eq, [a, b], {}, pc)
            return it.truth(r, it.frames[-1], pc)
        return vc.CT if a is b else vc.CF
    if isinstance(b, I.Obj):
        eq, _ = b.cls.lookup("__eq__")
        if isinstance(eq, I.FuncVal):
            r = it.call_function(eq, [b, a], {}, pc)
            return it.truth(r, it.frames[-1], pc)
        return vc.CF
    if ta is SymList or tb is SymList:
        la = a if ta is SymList else None
        lb = b if tb is SymList else None
        if la is None or lb is None:
            other = b if la is not None else a
            me = la if la is not None else lb
            if isinstance(other, (list, tuple)):
                if isinstance(other, tuple) != me.is_tuple:
                    return vc.CF
                lb = SymList([[vc.CT, x] for x in other], is_tuple=me.is_tuple)
                la = me
            else:
                return vc.CF
        if la.is_tuple != lb.is_tuple:
            return vc.CF
        if all_present(it, la) and all_present(it, lb):
            if len(la.elems) != len(lb.elems):
                return vc.CF
            res = vc.CT
            fr = it.frames[-1]
            for (_, x), (_, y) in zip(la.elems, lb.elems):
                res = vc.c_and(res, it.truth(it.compare(ast.Eq, x, y, fr, pc), fr, pc))
            return res
        fr = it.frames[-1]
        ea = [(p_, x) for p_, x in la.elems if not vc.c_is_false(p_)]
        eb = [(p_, x) for p_, x in lb.elems if not vc.c_is_false(p_)]
        if len(ea) * len(eb) > 65536:
            raise Unsupported("== on long lists with optional elements")

        def eqv(x, y, px=None, py=None):
            # evaluated under the presence of both elements (an absent element has no value)
            q = pc
            if px is not None:
                q = vc.c_and(vc.c_and(pc, px), py)
                if vc.c_is_false(q):
                    return vc.CF
            return it.truth(it.compare(ast.Eq, x, y, fr, q), fr, q)

        if getattr(la, "origin", None) == "set" or getattr(lb, "origin", None) == "set":
            # sets (insertion lists without duplicates): equal iff each present element of one
            # has an equal present element in the other
            if getattr(la, "origin", None) != getattr(lb, "origin", None):
                return vc.CF
            res = vc.CT
            for xs, ys in ((ea, eb), (eb, ea)):
                for px, x in xs:
                    found = vc.CF
                    for py, y in ys:
                        found = vc.c_or(found, vc.c_and(py, eqv(x, y, px, py)))
                    res = vc.c_and(res, vc.c_or(vc.c_not(px), found))
            return res
        # ordered sequences with optional elements: alignment of the present elements
        n, k = len(ea), len(eb)
        E = [[None] * (k + 1) for _ in range(n + 1)]
        E[n][k] = vc.CT
        for j in range(k - 1, -1, -1):
            E[n][j] = vc.c_and(vc.c_not(eb[j][0]), E[n][j + 1])
        for i in range(n - 1, -1, -1):
            E[i][k] = vc.c_and(vc.c_not(ea[i][0]), E[i + 1][k])
        for i in range(n - 1, -1, -1):
            for j in range(k - 1, -1, -1):
                pa, pb = ea[i][0], eb[j][0]
                skip_a = vc.c_and(vc.c_not(pa), E[i + 1][j])
                skip_b = vc.c_and(vc.c_and(pa, vc.c_not(pb)), E[i][j + 1])
                both = vc.c_and(vc.c_and(pa, pb), vc.c_and(eqv(ea[i][1], eb[j][1], pa, pb), E[i + 1][j + 1]))
                E[i][j] = vc.c_or(skip_a, vc.c_or(skip_b, both))
        return E[0][0]
    if ta is SymDict or tb is SymDict:
        if ta is not SymDict:
            a, b, ta, tb = b, a, tb, ta
        if tb is not SymDict:
            if not isinstance(b, dict):
                return vc.CF
            d2 = SymDict()
            for k, v in b.items():
                d2.keys.append(k)
                d2.pres[k] = vc.CT
                d2.vals[k] = v
            b = d2
        fr = it.frames[-1]
        res = vc.CT
        keys = list(a.keys) + [k for k in b.keys if k not in a.pres]
        for k in keys:
            pa = a.pres.get(k, vc.CF)
            pb = b.pres.get(k, vc.CF)
            same_pres = vc.c_or(vc.c_and(pa, pb), vc.c_and(vc.c_not(pa), vc.c_not(pb)))
            res = vc.c_and(res, same_pres)
            both = vc.c_and(pa, pb)
            if not vc.c_is_false(both):
                ve = it.truth(it.compare(ast.Eq, a.vals[k], b.vals[k], fr, pc), fr, pc)
                res = vc.c_and(res, vc.c_or(vc.c_not(both), ve))
        return res
    # ClassVal, FuncVal, ModuleVal...: identity
    return vc.CT if a is b else vc.CF


def special_compare(it, op, a, b, pc):
    vc = it.vc
    fr = it.frames[-1]
    if op in (ast.Eq, ast.NotEq):
        res = _dispatch2(it, a, b, pc, lambda x, y, p: leaf_eq(it, x, y, p))
        if op is ast.NotEq:
            res = vc.c_not(res)
        return it.bool_value(res)
    if op in (ast.Is, ast.IsNot):
        def ident(x, y, p):
            if _I().is_special(x) or _I().is_special(y):
                return vc.CT if x is y else vc.CF
            return vc.CT if x is y else vc.CF
        res = _dispatch2(it, a, b, pc, ident)
        if op is ast.IsNot:
            res = vc.c_not(res)
        return it.bool_value(res)
    raise Unsupported("ordering comparison on %r / %r" % (a, b))


def _dispatch2(it, a, b, pc, fn):
    """Cond: OR over leaf pairs (ga & gb & fn(la, lb)); pair leaves of plain values are compared
    side-wise"""
    vc = it.vc
    I = _I()
    # a StructStr compared against a union of plain strings is handled by leaf_eq directly
    if type(a) is StructStr and not I.has_special(b):
        return fn(a, b, pc)
    if type(b) is StructStr and not I.has_special(a):
        return fn(b, a, pc)
    res = vc.CF
    for ga, la in vc.alts(a):
        for gb, lb in vc.alts(b):
            g = vc.m.AND(ga, gb)
            if g is vc.F:
                continue
            apc = vc.c_andg(pc, g)
            if vc.c_is_false(apc):
                continue
            if type(la) is Pair or type(lb) is Pair:
                cl = fn(left(la), left(lb), apc)
                cr = fn(right(la), right(lb), apc)
                c = Cond(cl.l, cr.r)
            elif not I.is_special(la) and not I.is_special(lb):
                try:
                    c = vc.CT if la == lb else vc.CF
                except Exception as e:  # noqa: BLE001
                    it.raise_exc(apc, e)
                    continue
                if fn.__name__ == "ident":
                    c = vc.CT if la is lb else vc.CF
            else:
                c = fn(la, lb, apc)
            res = vc.c_or(res, vc.c_andg(c, g))
    return res


def special_binop(it, op, a, b, pc):
    vc = it.vc
    I = _I()
    ta, tb = type(a), type(b)
    if op is ast.Add:
        if ta is StructStr and tb is StructStr:
            return SS.concat_ss(vc, a, b)
        if ta is StructStr and not I.has_special(b):
            return SS.concat_right(vc, a, b)
        if tb is StructStr and not I.has_special(a):
            return SS.concat_left(vc, a, b)
        if ta is SymList and tb is SymList:
            if a.is_tuple != b.is_tuple:
                it.raise_exc(pc, TypeError("can only concatenate list to list"))
                return UNBOUND
            return SymList([list(e) for e in a.elems] + [list(e) for e in b.elems], is_tuple=a.is_tuple)
        if ta is SymList and isinstance(b, (list, tuple)) and isinstance(b, tuple) == a.is_tuple:
            return SymList([list(e) for e in a.elems] + [[vc.CT, x] for x in b], is_tuple=a.is_tuple)
        if tb is SymList and isinstance(a, (list, tuple)) and isinstance(a, tuple) == b.is_tuple:
            return SymList([[vc.CT, x] for x in a] + [list(e) for e in b.elems], is_tuple=b.is_tuple)
    if op is ast.Mod and isinstance(a, str):
        return Opaque("format", (a, b))
    if ta is U and I.has_special(a):
        outs = []
        for g, leaf in a.alts:
            apc = vc.c_andg(pc, g)
            if vc.c_is_false(apc):
                continue
            outs.append((g, special_binop(it, op, leaf, b, apc) if I.has_special(leaf) or I.has_special(b) else vc.lift(I.BINOPS[op], [leaf, b], apc, it.sink)))
        return vc.mk_union(outs, sweep=False)
    if tb is U and I.has_special(b):
        outs = []
        for g, leaf in b.alts:
            apc = vc.c_andg(pc, g)
            if vc.c_is_false(apc):
                continue
            outs.append((g, special_binop(it, op, a, leaf, apc) if I.has_special(leaf) or I.has_special(a) else vc.lift(I.BINOPS[op], [a, leaf], apc, it.sink)))
        return vc.mk_union(outs, sweep=False)
    if ta is Opaque or tb is Opaque:
        if op is ast.Add:
            return Opaque("concat", (a, b))
    if isinstance(a, I.Obj) or isinstance(b, I.Obj):
        names = {ast.Add: "__add__", ast.Sub: "__sub__", ast.Mult: "__mul__"}
        if op in names and isinstance(a, I.Obj):
            f, _ = a.cls.lookup(names[op])
            if isinstance(f, I.FuncVal):
                return it.call_function(f, [a, b], {}, pc)
    it.raise_exc(pc, TypeError("unsupported operand types for %s: %r and %r" % (op.__name__, a, b)))
    return UNBOUND


# -------------------------------------------------------------------------------------------------
# native method calls
# -------------------------------------------------------------------------------------------------


def to_str(it, v, pc):
    vc = it.vc
    I = _I()
    t = type(v)
    if t is StructStr:
        return v
    if t is Opaque:
        return Opaque("str", (v,))
    if isinstance(v, I.Obj):
        s, _ = v.cls.lookup("__str__")
        if isinstance(s, I.FuncVal):
            return it.call_function(s, [v], {}, pc)
        if v.cls.is_exception():
            a = v.attrs.get("args", ())
            if isinstance(a, tuple) and len(a) == 1 and isinstance(a[0], str):
                return a[0]
            if isinstance(a, tuple) and len(a) == 0:
                return ""
            if isinstance(a, SymList) and len(a.elems) == 1:
                return to_str(it, a.elems[0][1], pc)
            return Opaque("str", (v,))
        return Opaque("str", (v,))
    if t is U and I.has_special(v):
        outs = []
        for g, leaf in v.alts:
            outs.append((g, to_str(it, leaf, vc.c_andg(pc, g))))
        return vc.mk_union(outs, sweep=False)
    if t is SymList or t is SymDict:
        return Opaque("str", (v,))
    return vc.lift(str, [v], pc, it.sink)


def do_format(it, fmt, args, kwargs, pc):
    vc = it.vc
    I = _I()
    allv = list(args) + list(kwargs.values())
    if any(I.has_special(a) for a in allv) or I.has_special(fmt):
        return Opaque("format", (fmt, tuple(args)))
    prod = 1
    for a in allv + [fmt]:
        if type(a) is U:
            prod *= len(a.alts)
    if prod > it.max_format_product:
        return Opaque("format", (fmt, tuple(args)))
    keys = list(kwargs.keys())
    n = len(args)

    def f(fm, *vals):
        return fm.format(*vals[:n], **dict(zip(keys, vals[n:])))

    return vc.lift(f, [fmt] + allv, pc, it.sink)


CONSUMING_METHODS = {"join", "extend", "update", "fromkeys", "union", "intersection", "difference", "symmetric_difference",
                     "issubset", "issuperset", "isdisjoint", "intersection_update", "difference_update"}


def call_native_method(it, recv, name, args, kwargs, pc):
    vc = it.vc
    I = _I()
    t = type(recv)
    fr = it.frames[-1]
    if t is SymIter:
        raise Unsupported("method %s of an iterator object" % name)
    if name in CONSUMING_METHODS and any(type(a) is SymIter for a in args):
        # these methods run their iterable argument to the end
        args = [SymList([list(e) for e in it.consume_iter(a, pc)]) if type(a) is SymIter else a for a in args]
    if t is StructStr:
        return structstr_method(it, recv, name, args, kwargs, pc)
    if t is SymList:
        return symlist_method(it, recv, name, args, kwargs, pc)
    if t is SymDict:
        return symdict_method(it, recv, name, args, kwargs, pc)
    if t is Opaque:
        if name in ("encode", "decode", "strip", "upper", "lower"):
            return Opaque(name, (recv,))
        raise Unsupported("method %s on %r" % (name, recv))
    if isinstance(recv, I.Obj):
        # method of a real base class of an interpreted class (e.g. Exception.__str__)
        if name == "__str__":
            return to_str(it, recv, pc)
        raise Unsupported("native method %s on object" % name)
    if t is U and I.has_special(recv):
        # receiver is "one of several heap objects": the method runs on each under its guard
        if any(type(leaf) is Pair for _, leaf in recv.alts):
            raise Unsupported("method %s on a union with two-sided heap alternatives" % name)
        outs = []
        for g_, leaf in recv.alts:
            apc = vc.c_andg(pc, g_)
            if vc.c_is_false(apc):
                continue
            outs.append((g_, call_native_method(it, leaf, name, args, kwargs, apc)))
        return vc.mk_union(outs, sweep=False)
    # plain values (concrete or union of concrete)
    leaf0 = None
    for g, leaf in vc.alts(recv):
        leaf0 = left(leaf)
        break
    if isinstance(leaf0, str):
        if name == "join" and len(args) == 1 and not kwargs and type(args[0]) is U and I.has_special(args[0]):
            outs = []
            for g, leaf in args[0].alts:
                apc = vc.c_andg(pc, g)
                if vc.c_is_false(apc):
                    continue
                outs.append((g, call_native_method(it, recv, name, [leaf], kwargs, apc)))
            return vc.mk_union(outs, sweep=False)
        if name == "join" and len(args) == 1 and not kwargs:
            a = args[0]
            if isinstance(a, SymList):
                real = to_real_seq(it, a)
                if real is None:
                    prod = 1
                    for _, e in a.elems:
                        if type(e) is U:
                            prod *= len(e.alts)
                    if (recv == "" or prod <= 64) and all_present_under(it, a, pc) and not any(I.has_special(e) for _, e in a.elems):
                        # every element is there: plain concatenation over the alternatives
                        items = [e for _, e in a.elems]
                        return vc.lift(lambda s, *xs: s.join(xs), [recv] + items, pc, it.sink)
                    if type(recv) is not str or recv == "":
                        raise Unsupported("symbolic separator join")
                    return SS.join(vc, recv, a)
                args = [real]
        elif name == "format":
            return do_format(it, recv, args, kwargs, pc)
    if name == "fromkeys" and recv in (dict, collections.OrderedDict) and args and isinstance(args[0], (SymList, SymDict)):
        d = SymDict(ordered=recv is collections.OrderedDict)
        val = args[1] if len(args) > 1 else None
        for pres, k in it.iter_items(args[0], fr, pc):
            symdict_set(it, d, k, val, vc.c_and(pc, pres) if pc is not vc.CT else pres)
        return d
    if name == "match" and len(args) == 1 and type(args[0]) is StructStr and not kwargs and type(recv) is not U:
        import re as _re

        if isinstance(recv, _re.Pattern):
            return regex_match_structstr(it, recv, args[0], pc)
    # a registered override for (type, method)?
    ov = it.native_overrides.get((type(leaf0), name))
    if ov is not None:
        return ov(it, recv, args, kwargs, pc)
    if name in MUTATORS and isinstance(leaf0, (list, dict, set, collections.OrderedDict, bytearray, collections.deque)):
        it.log_effect("native-mutation", recv, name, pc)
        if type(recv) is U or pc is not vc.CT or not all(I.deep_concrete(a) and type(a) is not U for a in args):
            raise Unsupported("symbolic mutation of real container via .%s" % name)
    # lookup in a real dict by a symbolic sequence key (a cache keyed by tuples of metric values):
    # decided when the dict is empty; otherwise the key is compared with every stored key
    if isinstance(leaf0, dict) and type(recv) is not U and name == "get" and args and isinstance(args[0], SymList) and not kwargs:
        default = args[1] if len(args) > 1 else None
        if len(recv) == 0:
            return default
        res = default
        for k0 in reversed(list(recv.keys())):
            if not isinstance(k0, tuple):
                continue
            same = it.truth(it.compare(ast.Eq, args[0], SymList([[vc.CT, x] for x in k0], is_tuple=True), fr, pc), fr, pc)
            res = vc.select(same, recv[k0], res)
        return res
    # convert fully concrete symbolic sequences to real ones
    conv = []
    for a in args:
        if isinstance(a, SymList):
            r = to_real_seq(it, a)
            if r is None:
                raise Unsupported("method %s with symbolic list argument" % name)
            conv.append(r)
        elif I.has_special(a) and not isinstance(a, (I.ClassVal, I.FuncVal)):
            if type(a) is StructStr and isinstance(leaf0, dict) and name == "get":
                # real dict lookup with a structured string key
                return dict_get_structstr(it, recv, a, args[1] if len(args) > 1 else None, pc)
            raise Unsupported("method %s with argument %r" % (name, a))
        else:
            conv.append(a)
    kwk = list(kwargs.keys())
    for k in kwk:
        if I.has_special(kwargs[k]):
            raise Unsupported("method %s with keyword %r" % (name, kwargs[k]))
    n = len(conv)

    def f(r, *vals):
        return getattr(r, name)(*vals[:n], **dict(zip(kwk, vals[n:])))

    return vc.lift(f, [recv] + conv + [kwargs[k] for k in kwk], pc, it.sink)


def dict_get_structstr(it, d, ss, default, pc):
    vc = it.vc
    outs = []
    rest = vc.CT
    for k, v in d.items():
        if isinstance(k, str):
            c = SS.eq_const(vc, ss, k)
            if c is not vc.CF:
                outs.append((vc.c_any(c), v))
                rest = vc.c_and(rest, vc.c_not(c))
    outs.append((vc.c_any(rest), default))
    return vc.mk_union(outs, sweep=False)


def structstr_method(it, ss, name, args, kwargs, pc):
    vc = it.vc
    if kwargs:
        raise Unsupported("keyword args on str method")
    if name == "split":
        if not args or not isinstance(args[0], str):
            raise Unsupported("split() without concrete separator")
        ms = -1 if len(args) < 2 else args[1]
        return SS.split(vc, ss, args[0], ms)
    if name == "partition" and len(args) == 1 and isinstance(args[0], str):
        return SS.partition(vc, ss, args[0])
    if name in ("startswith", "endswith"):
        a = args[0]
        fn = SS.startswith if name == "startswith" else SS.endswith
        if isinstance(a, str):
            return it.bool_value(fn(vc, ss, a))
        if isinstance(a, tuple) and all(isinstance(x, str) for x in a):
            res = vc.CF
            for x in a:
                res = vc.c_or(res, fn(vc, ss, x))
            return it.bool_value(res)
        raise Unsupported("%s with %r" % (name, a))
    if name in ("upper", "lower", "swapcase", "casefold", "title", "capitalize"):
        if name in ("title", "capitalize"):
            raise Unsupported("str.%s on structured string" % name)
        chunks = [(g, vc.lift(lambda x: getattr(x, name)(), [s], vc.CT, it.sink)) for g, s in ss.chunks]
        return StructStr(ss.sep, chunks)
    if name == "format":
        return Opaque("format", (ss, tuple(args)))
    if name in ("encode",):
        return Opaque("encode", (ss,))
    if name == "__eq__":
        return it.bool_value(leaf_eq(it, ss, args[0], pc))
    if name in ("strip", "lstrip", "rstrip") and (not args or (isinstance(args[0], str) and ss.sep not in args[0])):
        # strips characters only at the ends: first / last present chunk
        return strip_structstr(it, ss, name, args)
    if name == "replace" and len(args) == 2 and isinstance(args[0], str) and isinstance(args[1], str) and ss.sep not in args[0] and ss.sep not in args[1]:
        a0, a1 = args
        chunks = [(g, vc.lift(lambda x: x.replace(a0, a1), [s], vc.CT, it.sink)) for g, s in ss.chunks]
        return StructStr(ss.sep, chunks)
    raise Unsupported("str.%s on structured string" % name)


def strip_structstr(it, ss, name, args):
    vc = it.vc
    m = vc.m
    chunks = [c for c in ss.chunks if c[0] is not vc.F]
    # only sound when stripping never empties a boundary chunk completely unless whitespace-only
    # chunks are absent: we apply the strip to the first/last present chunk and refuse if a
    # present boundary chunk could become empty while others follow (would then keep stripping).
    chars = args[0] if args else None
    new = list(chunks)
    if name in ("strip", "lstrip"):
        before = vc.T
        for i, (g, s) in enumerate(new):
            first = m.AND(before, g)
            if first is not vc.F:
                st = vc.lift(lambda x: x.lstrip(chars), [s], vc.CT, it.sink)
                for gg, leaf in vc.alts(st):
                    if leaf == "" and len(chunks) > 1:
                        for g0, l0 in vc.alts(s):
                            if l0.lstrip(chars) == "" and m.is_sat(m.AND(first, m.AND(g0, gg) if type(st) is U else g0)) is not False:
                                raise Unsupported("strip that empties a chunk")
                new[i] = (g, vc.select(Cond(first), st, s))
            before = m.AND(before, m.NOT(g))
    if name in ("strip", "rstrip"):
        after = vc.T
        for i in range(len(new) - 1, -1, -1):
            g, s = new[i]
            lastp = m.AND(after, g)
            if lastp is not vc.F:
                st = vc.lift(lambda x: x.rstrip(chars), [s], vc.CT, it.sink)
                for gg, leaf in vc.alts(st):
                    if leaf == "" and len(chunks) > 1:
                        for g0, l0 in vc.alts(s):
                            if l0.rstrip(chars) == "" and m.is_sat(m.AND(lastp, g0)) is not False:
                                raise Unsupported("strip that empties a chunk")
                new[i] = (g, vc.select(Cond(lastp), st, s))
            after = m.AND(after, m.NOT(g))
    return StructStr(ss.sep, new)


def symlist_method(it, lst, name, args, kwargs, pc):
    vc = it.vc
    fr = it.frames[-1]
    if name in ("append", "add"):
        if lst.is_tuple:
            it.raise_exc(pc, AttributeError("'tuple' object has no attribute 'append'"))
            return UNBOUND
        if name == "add" and not getattr(lst, "origin", None) == "set":
            it.raise_exc(pc, AttributeError("'list' object has no attribute 'add'"))
            return UNBOUND
        if name == "add":
            # set semantics: the element is inserted unless an equal element (equal hash and
            # __eq__) is already there
            x = args[0]
            hx = bi_hash(it, [x], {}, pc)
            dup = vc.CF
            for p, e in list(lst.elems):
                q = vc.c_and(pc, p)
                if vc.c_is_false(q):
                    continue
                # (under the presence of the existing element: an absent one has no value)
                he = bi_hash(it, [e], {}, q)
                same_hash = it.truth(it.compare(ast.Eq, he, hx, fr, q), fr, q)
                same = it.truth(it.compare(ast.Eq, e, x, fr, q), fr, q)
                dup = vc.c_or(dup, vc.c_and(p, vc.c_and(same_hash, same)))
            symlist_append(it, lst, x, vc.c_and(it.live(fr, pc), vc.c_not(dup)))
            return None
        symlist_append(it, lst, args[0], pc)
        return None
    if name == "extend":
        symlist_extend(it, lst, args[0], pc)
        return None
    if name == "copy":
        return SymList([list(e) for e in lst.elems], is_tuple=lst.is_tuple)
    if name == "index":
        if all_present(it, lst):
            outs = []
            rest = vc.CT
            for i, (_, e) in enumerate(lst.elems):
                c = vc.c_and(rest, it.truth(it.compare(ast.Eq, e, args[0], fr, pc), fr, pc))
                outs.append((vc.c_any(c), i))
                rest = vc.c_and(rest, vc.c_not(c))
            bad = vc.c_and(pc, rest)
            if not vc.c_is_false(bad):
                it.raise_exc(bad, ValueError("value is not in list"))
            return vc.mk_union(outs, sweep=False)
    if name == "count":
        pass
    if name == "pop" and not lst.is_tuple and not kwargs and len(args) <= 1:
        idx = args[0] if args else -1
        if isinstance(idx, int) and not isinstance(idx, bool) and idx in (0, -1):
            # first (last) PRESENT element; it leaves the list under the live path condition
            live = it.live(fr, pc)
            order = lst.elems if idx == 0 else list(reversed(lst.elems))
            rest = vc.CT
            firsts = []
            for e in order:
                firsts.append((vc.c_and(rest, e[0]), e))
                rest = vc.c_and(rest, vc.c_not(e[0]))
            bad = vc.c_and(live, rest)
            if not vc.c_is_false(bad):
                it.raise_exc(bad, IndexError("pop from empty list"))
            res = UNBOUND
            for f, e in reversed(firsts):
                if vc.c_is_false(f):
                    continue
                res = e[1] if res is UNBOUND else vc.select(f, e[1], res)
            for f, e in firsts:
                e[0] = vc.c_and(e[0], vc.c_not(vc.c_and(live, f)))
            return res
    if name == "__len__":
        return symlist_len(it, lst)
    raise Unsupported("list.%s on symbolic list" % name)


def symdict_items(it, d, what):
    vc = it.vc
    elems = []
    for k in d.keys:
        p = d.pres[k]
        if p is vc.CF:
            continue
        if what == "keys":
            elems.append([p, k])
        elif what == "values":
            elems.append([p, d.vals[k]])
        else:
            I = _I()
            v = d.vals[k]
            if I.deep_concrete(v):
                elems.append([p, (k, v)])
            else:
                elems.append([p, SymList([[vc.CT, k], [vc.CT, v]], is_tuple=True)])
    out = SymList(elems)
    if d.symkeys:
        out.origin = "symkey-view"
    return out


def symdict_method(it, d, name, args, kwargs, pc):
    vc = it.vc
    if name == "get":
        default = args[1] if len(args) > 1 else kwargs.get("default", None)
        val, pres = symdict_lookup(it, d, args[0], pc)
        if pres is vc.CT or vc.c_is_true(pres):
            return val
        return vc.select(pres, val, default)
    if name in ("items", "keys", "values"):
        return symdict_items(it, d, name)
    if name == "copy":
        return symdict_copy(d)
    if name == "update":
        other = args[0] if args else None
        if isinstance(other, SymDict):
            for k in other.keys:
                symdict_set(it, d, k, other.vals[k], vc.c_and(pc, other.pres[k]))
        elif isinstance(other, dict):
            for k, v in other.items():
                symdict_set(it, d, k, v, pc)
        elif other is not None:
            raise Unsupported("dict.update(%r)" % (other,))
        for k, v in kwargs.items():
            symdict_set(it, d, k, v, pc)
        return None
    if name == "setdefault":
        val, pres = symdict_lookup(it, d, args[0], pc)
        default = args[1] if len(args) > 1 else None
        symdict_set(it, d, args[0], default, vc.c_and(pc, vc.c_not(pres)))
        return vc.select(pres, val, default)
    if name == "pop":
        val, pres = symdict_lookup(it, d, args[0], pc)
        if len(args) > 1:
            res = vc.select(pres, val, args[1])
        else:
            bad = vc.c_and(pc, vc.c_not(pres))
            if not vc.c_is_false(bad):
                it.raise_exc(bad, KeyError("pop"))
            res = val
        symdict_del(it, d, args[0], it.live(it.frames[-1], pc))
        return res
    if name == "__contains__":
        return contains(it, d, args[0], pc)
    if name == "__len__":
        return symlist_len(it, symdict_items(it, d, "keys"))
    raise Unsupported("dict.%s on symbolic dict" % name)


def symdict_copy(d):
    n = SymDict(ordered=d.ordered)
    n.keys = list(d.keys)
    n.pres = dict(d.pres)
    n.vals = dict(d.vals)
    n.symkeys = d.symkeys
    return n


# -------------------------------------------------------------------------------------------------
# builtins and overrides
# -------------------------------------------------------------------------------------------------


# -------------------------------------------------------------------------------------------------
# re.match on a structured string
# -------------------------------------------------------------------------------------------------

_RE_UNSAFE = ("$", "\\b", "\\B", "\\Z", "\\A", "(?=", "(?!", "(?<", "(?P=", "\\1", "\\2", "(?i", "(?m", "(?s", "(?x")


def regex_match_structstr(it, pat, ss, pc):
    """pattern.match(ss) for a compiled pattern and a structured string, where the outcome is
    decided by the first chunk: for every alternative h of the first chunk, either no further
    chunk is present (the string is h: real `re`), or the string is h + sep + <unknown rest> and
    the pattern's NFA (spec/regex_nfa.py), after reading h + sep, has no state left that can read
    another character - then every match ends inside h + sep and the real `re` on h + sep returns
    the same match (same candidates, same priorities).  Patterns with anchors, look-around,
    back-references or inline flags are refused (their outcome may depend on what follows)."""
    import re as _re

    vc, m = it.vc, it.m
    if not isinstance(pat, _re.Pattern) or not isinstance(pat.pattern, str):
        raise Unsupported("regex match with %r" % (pat,))
    if pat.flags & ~_re.UNICODE:
        raise Unsupported("regex flags on a symbolic string")
    text = pat.pattern
    if any(x in text for x in _RE_UNSAFE) or text.startswith("^"):
        raise Unsupported("regex %r on a symbolic string: anchors / look-around not modelled" % text)
    if not ss.chunks or ss.chunks[0][0] is not m.TRUE:
        raise Unsupported("regex match on a structured string without a fixed first chunk")
    import os as _os
    import sys as _sys

    root = _os.path.dirname(_os.path.dirname(_os.path.abspath(__file__)))
    if root not in _sys.path:
        _sys.path.insert(0, root)
    from spec import regex_nfa as R

    try:
        nfa = R.parse("^(?:" + text + ")$")
    except Exception as e:  # noqa: BLE001
        raise Unsupported("regex %r not in the NFA engine's subset: %s" % (text, e))
    more = m.or_all([g for g, _ in ss.chunks[1:]]) if len(ss.chunks) > 1 else m.FALSE
    none_more = m.NOT(more)
    outs = []
    for g, h in vc.alts(ss.chunks[0][1]):
        if not isinstance(h, str):
            raise Unsupported("regex match: first chunk alternative %r" % (h,))
        ga = m.AND(g, none_more)
        if ga is not m.FALSE:
            outs.append((ga, pat.match(h)))
        gb = m.AND(g, more)
        if gb is not m.FALSE:
            p_ = h + ss.sep
            states = R.step(nfa, R.initial(nfa), p_)
            if any(nfa.trans[s_] for s_ in states):
                raise Unsupported("regex %r: the match is not decided by the first chunk %r" % (text, h))
            outs.append((gb, pat.match(p_)))
    return vc.mk_union(outs, sweep=False)



def call_real(it, f, args, kwargs, pc):
    vc = it.vc
    I = _I()
    ov = it.native_overrides.get(f) if _hashable(f) else None
    if ov is not None and _hashable(f) and f in _DISTRIBUTE_FIRST and args and type(args[0]) is U and I.has_special(args[0]):
        # a pure builtin applied to "one of several heap objects" (e.g. a dict that is either the
        # object's own or a copy of it): apply it to each alternative under its guard
        outs = []
        for g_, leaf in args[0].alts:
            apc = vc.c_andg(pc, g_)
            if vc.c_is_false(apc):
                continue
            outs.append((g_, ov(it, [leaf] + list(args[1:]), kwargs, apc)))
        return vc.mk_union(outs, sweep=False)
    if ov is not None:
        return ov(it, args, kwargs, pc)
    import re as _re

    if f is _re.match and len(args) == 2 and type(args[1]) is StructStr and isinstance(args[0], str) and not kwargs:
        return regex_match_structstr(it, _re.compile(args[0]), args[1], pc)
    conv = []
    for a in args:
        if isinstance(a, SymList):
            r = to_real_seq(it, a)
            if r is None:
                raise Unsupported("call of %r with symbolic list" % (f,))
            conv.append(r)
        elif isinstance(a, SymDict):
            raise Unsupported("call of %r with symbolic dict" % (f,))
        elif I.has_special(a) and not isinstance(a, (I.ClassVal, I.FuncVal, I.ModuleVal)):
            raise Unsupported("call of %r with %r" % (f, a))
        else:
            conv.append(a)
    kwk = list(kwargs.keys())
    for k in kwk:
        if I.has_special(kwargs[k]) or isinstance(kwargs[k], (SymList, SymDict)):
            raise Unsupported("call of %r with keyword %r" % (f, kwargs[k]))
    n = len(conv)

    def g(*vals):
        return f(*vals[:n], **dict(zip(kwk, vals[n:])))

    return vc.lift(g, conv + [kwargs[k] for k in kwk], pc, it.sink)


_DISTRIBUTE_FIRST = {sorted, list, tuple, dict, len, set, frozenset, enumerate, reversed, sum, min, max, any, all, collections.OrderedDict}


def _hashable(f):
    try:
        hash(f)
        return True
    except TypeError:
        return False


def _leafwise(it, v, pc, fn):
    """apply fn(leaf, pc) -> Value to every alternative of v"""
    vc = it.vc
    if type(v) is not U:
        return fn(v, pc)
    outs = []
    for g, leaf in v.alts:
        apc = vc.c_andg(pc, g)
        if vc.c_is_false(apc):
            continue
        outs.append((g, fn(leaf, apc)))
    return vc.mk_union(outs, sweep=False)


def bi_len(it, args, kwargs, pc):
    v = args[0]
    I = _I()

    def one(x, p):
        if isinstance(x, SymList):
            return symlist_len(it, x)
        if isinstance(x, SymDict):
            return symlist_len(it, symdict_items(it, x, "keys"))
        if isinstance(x, (StructStr, Opaque)):
            raise Unsupported("len of %r" % (x,))
        if isinstance(x, I.Obj):
            f, _ = x.cls.lookup("__len__")
            if isinstance(f, I.FuncVal):
                return it.call_function(f, [x], {}, p)
        return it.vc.lift(len, [x], p, it.sink)

    if I.has_special(v):
        return _leafwise(it, v, pc, one)
    return it.vc.lift(len, [v], pc, it.sink)


def bi_str(it, args, kwargs, pc):
    if not args:
        return ""
    return to_str(it, args[0], pc)


def bi_repr(it, args, kwargs, pc):
    I = _I()
    if I.has_special(args[0]):
        return Opaque("repr", (args[0],))
    return it.vc.lift(repr, [args[0]], pc, it.sink)


def bi_float(it, args, kwargs, pc):
    I = _I()
    if args and I.has_special(args[0]):
        f = it.float_of_special
        if f is not None:
            return f(it, args[0], pc)
        raise Unsupported("float(%r)" % (args[0],))
    return it.vc.lift(float, args, pc, it.sink)


def bi_int(it, args, kwargs, pc):
    I = _I()
    if args and I.has_special(args[0]):
        raise Unsupported("int(%r)" % (args[0],))
    return it.vc.lift(int, args, pc, it.sink)


def bi_bool(it, args, kwargs, pc):
    if not args:
        return False
    return it.bool_value(it.truth(args[0], it.frames[-1], pc))


def _seq_values(it, v, pc):
    """list of Values of an all-present iterable, or None"""
    vc = it.vc
    out = []
    for pres, e in it.iter_items(v, it.frames[-1], pc):
        if pres is not vc.CT and not vc.c_is_true(pres):
            if not vc.c_is_false(vc.c_and(pc, vc.c_not(pres))):
                return None
        out.append(e)
    return out


def bi_minmax(which):
    pyf = min if which == "min" else max

    def h(it, args, kwargs, pc):
        if "key" in kwargs:
            raise Unsupported("%s with key" % which)
        default = kwargs.get("default", UNBOUND)
        if len(args) == 1:
            vals = _seq_values(it, args[0], pc)
            if vals is None:
                raise Unsupported("%s over optional elements" % which)
            if not vals:
                if default is not UNBOUND:
                    return default
                it.raise_exc(pc, ValueError("%s() arg is an empty sequence" % which))
                return UNBOUND
        else:
            vals = list(args)
        I = _I()
        if any(I.has_special(v) for v in vals):
            raise Unsupported("%s over special values" % which)
        # pairwise to keep the products small
        res = vals[0]
        for v in vals[1:]:
            res = it.vc.lift(lambda a, b: pyf(a, b), [res, v], pc, it.sink)
        return res

    return h


def bi_sum(it, args, kwargs, pc):
    vals = _seq_values(it, args[0], pc)
    if vals is None:
        raise Unsupported("sum over optional elements")
    res = args[1] if len(args) > 1 else 0
    for v in vals:
        res = it.binop(ast.Add, res, v, it.frames[-1], pc)
    return res


def bi_allany(which):
    def h(it, args, kwargs, pc):
        vc = it.vc
        fr = it.frames[-1]
        res = vc.CT if which == "all" else vc.CF
        src = args[0]
        if type(src) is SymIter:
            # stops right after the first true (any) / false (all) element
            truths = {}

            def upto(i, p, v):
                c = truths[i] = it.truth(v, fr, pc)
                return c if which == "any" else vc.c_not(c)

            items = it.consume_iter(src, pc, upto)
            src = SymList([list(e) for e in items])
        for pres, e in it.iter_items(src, fr, pc):
            c = it.truth(e, fr, pc)
            if which == "all":
                res = vc.c_and(res, vc.c_or(vc.c_not(pres), c))
            else:
                res = vc.c_or(res, vc.c_and(pres, c))
        return it.bool_value(res)

    return h


def bi_tuple(it, args, kwargs, pc):
    if not args:
        return ()
    v = args[0]
    I = _I()

    def one(x, p):
        if isinstance(x, SymList):
            r = SymList([list(e) for e in x.elems], is_tuple=True)
            rr = to_real_seq(it, r)
            return rr if rr is not None else r
        if isinstance(x, SymDict):
            return one(symdict_items(it, x, "keys"), p)
        if I.is_special(x):
            raise Unsupported("tuple(%r)" % (x,))
        return it.vc.lift(tuple, [x], p, it.sink)

    return _leafwise(it, v, pc, one)


def bi_list(it, args, kwargs, pc):
    if not args:
        return SymList([])
    v = args[0]
    I = _I()

    def one(x, p):
        if isinstance(x, SymList):
            if getattr(x, "origin", None) == "set":
                it.hash_order_iterations.append(("list(set)", p))
            return SymList([list(e) for e in x.elems], is_tuple=False)
        if isinstance(x, SymDict):
            return one(symdict_items(it, x, "keys"), p)
        if I.is_special(x):
            raise Unsupported("list(%r)" % (x,))
        try:
            items = list(x)
        except Exception as e:  # noqa: BLE001
            it.raise_exc(p, e)
            return UNBOUND
        return SymList([[it.vc.CT, e] for e in items])

    return _leafwise(it, v, pc, one)


def bi_set(it, args, kwargs, pc):
    """sets of objects are modelled as insertion lists tagged 'set'; every element goes in through
    the set's add (deduplication by the interpreted __hash__ / __eq__)"""
    s = SymList([])
    s.origin = "set"
    if args:
        for pres, v in it.iter_items(args[0], it.frames[-1], pc):
            symlist_method(it, s, "add", [v], {}, it.vc.c_and(pc, pres))
    return s


def bi_dict_ctor(ordered):
    def h(it, args, kwargs, pc):
        vc = it.vc
        I = _I()
        if not args and not kwargs:
            return SymDict(ordered=ordered)
        if args and isinstance(args[0], (SymList, SymDict)):
            d = SymDict(ordered=ordered)
            src = args[0]
            if isinstance(src, SymDict):
                for k in src.keys:
                    symdict_set(it, d, k, src.vals[k], src.pres[k])
            else:
                for pres, e in src.elems:
                    parts = it.unpack(e, 2, it.frames[-1], pc)
                    if parts is None:
                        continue
                    symdict_set(it, d, parts[0], parts[1], pres)
            for k, v in kwargs.items():
                symdict_set(it, d, k, v, vc.CT)
            return d
        typ = collections.OrderedDict if ordered else dict
        if any(I.has_special(v) or type(v) is U for v in kwargs.values()):
            d = SymDict(ordered=ordered)
            if args:
                for k, v in typ(args[0]).items():
                    symdict_set(it, d, k, v, vc.CT)
            for k, v in kwargs.items():
                symdict_set(it, d, k, v, vc.CT)
            return d
        if it.frames[-1].func is not None:
            # inside a function: mutable => symbolic container
            d = SymDict(ordered=ordered)
            try:
                src = typ(*args, **kwargs)
            except Exception as e:  # noqa: BLE001
                it.raise_exc(pc, e)
                return UNBOUND
            for k, v in src.items():
                symdict_set(it, d, k, v, vc.CT)
            return d
        return vc.lift(lambda *a: typ(*a, **kwargs), args, pc, it.sink)

    return h


def bi_sorted(it, args, kwargs, pc):
    vc = it.vc
    I = _I()
    v = args[0]
    if "key" in kwargs and kwargs["key"] is not None:
        raise Unsupported("sorted with key")
    rev = kwargs.get("reverse", False)
    if isinstance(v, SymDict):
        v = symdict_items(it, v, "keys")
    if isinstance(v, SymList):
        keyed = []
        for pres, e in v.elems:
            if isinstance(e, SymList) and e.is_tuple and e.elems and I.deep_concrete(e.elems[0][1]) and type(e.elems[0][1]) is not U:
                k = e.elems[0][1]
            elif I.deep_concrete(e) and type(e) is not U:
                k = e[0] if isinstance(e, tuple) and e else e
                if isinstance(e, tuple):
                    k = e[0]
            else:
                raise Unsupported("sorted over symbolic keys")
            keyed.append((k, pres, e))
        ks = [k for k, _, _ in keyed]
        if len(set(map(repr, ks))) != len(ks):
            # ties decided by later tuple components: only fine if fully concrete
            if not all(I.deep_concrete(e) and type(e) is not U for _, _, e in keyed):
                raise Unsupported("sorted with tied symbolic elements")
            keyed.sort(key=lambda x: x[2], reverse=bool(rev))
        else:
            try:
                keyed.sort(key=lambda x: x[0], reverse=bool(rev))
            except Exception as e:  # noqa: BLE001
                it.raise_exc(pc, e)
                return UNBOUND
        return SymList([[p, e] for _, p, e in keyed])
    if I.has_special(v):
        raise Unsupported("sorted(%r)" % (v,))
    return vc.lift(lambda x: sorted(x, reverse=bool(rev)), [v], pc, it.sink)


def bi_enumerate(it, args, kwargs, pc):
    vc = it.vc
    start = args[1] if len(args) > 1 else kwargs.get("start", 0)
    vals = _seq_values(it, args[0], pc)
    if vals is None:
        # optional elements: the index of an element is the number of PRESENT elements before it -
        # a guarded union over the possible counts (dynamic programme over the presences)
        src = args[0]
        if not isinstance(src, SymList) or not isinstance(start, int) or len(src.elems) > 12:
            raise Unsupported("enumerate over optional elements")
        out = []
        counts = {0: vc.CT}  # number of present elements so far -> condition
        for pres, v in src.elems:
            alts = [(vc.c_any(c), start + k) for k, c in sorted(counts.items()) if not vc.c_is_false(c)]
            idx = alts[0][1] if len(alts) == 1 else vc.mk_union(alts, sweep=False)
            out.append([pres, SymList([[vc.CT, idx], [vc.CT, v]], is_tuple=True)])
            nxt = {}
            for k, c in counts.items():
                a = vc.c_and(c, pres)
                b = vc.c_and(c, vc.c_not(pres))
                if not vc.c_is_false(a):
                    nxt[k + 1] = vc.c_or(nxt[k + 1], a) if k + 1 in nxt else a
                if not vc.c_is_false(b):
                    nxt[k] = vc.c_or(nxt[k], b) if k in nxt else b
            counts = nxt
        return SymIter(out)
    I = _I()
    out = []
    for i, v in enumerate(vals, start):
        if I.deep_concrete(v):
            out.append([vc.CT, (i, v)])
        else:
            out.append([vc.CT, SymList([[vc.CT, i], [vc.CT, v]], is_tuple=True)])
    return SymIter(out)


def bi_zip(it, args, kwargs, pc):
    vc = it.vc
    seqs = []
    for a in args:
        vals = _seq_values(it, a, pc)
        if vals is None:
            raise Unsupported("zip over optional elements")
        seqs.append(vals)
    out = []
    for tup in zip(*seqs):
        out.append([vc.CT, SymList([[vc.CT, x] for x in tup], is_tuple=True)])
    return SymIter(out)


def bi_reversed(it, args, kwargs, pc):
    v = args[0]
    if isinstance(v, SymList):
        return SymIter([list(e) for e in reversed(v.elems)])
    r = it.vc.lift(lambda x: list(reversed(x)), [v], pc, it.sink)
    return SymIter([[pres, e] for pres, e in it.iter_items(r, it.frames[-1], pc)])


def bi_next(it, args, kwargs, pc):
    vc = it.vc
    v = args[0]
    if type(v) is SymIter:
        # takes the first remaining element
        v = SymList([list(e) for e in it.consume_iter(v, pc, lambda i, p, e: vc.CT)])
    if not isinstance(v, SymList):
        raise Unsupported("next(%r)" % (v,))
    outs = []
    rest = vc.CT
    for pres, e in v.elems:
        c = vc.c_and(rest, pres)
        if not vc.c_is_false(c):
            outs.append((vc.c_any(c), e))
        rest = vc.c_and(rest, vc.c_not(pres))
    if len(args) > 1:
        if not vc.c_is_false(vc.c_and(pc, rest)):
            outs.append((vc.c_any(rest), args[1]))
    else:
        bad = vc.c_and(pc, rest)
        if not vc.c_is_false(bad):
            it.raise_exc(bad, StopIteration())
    return vc.mk_union(outs, sweep=False)


def _isinstance_leaf(it, x, cls):
    I = _I()
    if isinstance(cls, tuple):
        return any(_isinstance_leaf(it, x, c) for c in cls)
    if isinstance(cls, SymList):
        return any(_isinstance_leaf(it, x, c) for _, c in cls.elems)
    if isinstance(x, I.Obj):
        if isinstance(cls, I.ClassVal):
            return x.cls.is_subclass_of(cls)
        return any((not isinstance(c, I.ClassVal)) and issubclass(c, cls) for c in x.cls.mro)
    if isinstance(cls, I.ClassVal):
        return False
    if isinstance(x, StructStr):
        return issubclass(str, cls)
    if isinstance(x, SymList):
        return issubclass(tuple if x.is_tuple else list, cls)
    if isinstance(x, SymDict):
        return issubclass(collections.OrderedDict if x.ordered else dict, cls)
    if isinstance(x, Opaque):
        if x.kind in ("format", "str", "concat", "json", "repr"):
            return issubclass(str, cls)
        if x.kind == "hash":
            return issubclass(int, cls)
        raise Unsupported("isinstance of opaque")
    if isinstance(x, I.ClassVal):
        return issubclass(type, cls)
    if isinstance(x, (I.FuncVal, I.BoundMethod, I.MethodRef, I.ModuleVal)):
        return False
    return isinstance(x, cls)


def bi_isinstance(it, args, kwargs, pc):
    v, cls = args

    def one(x, p):
        if type(x) is Pair:
            from .values import mkpair

            return mkpair(_isinstance_leaf(it, x.l, cls), _isinstance_leaf(it, x.r, cls))
        return _isinstance_leaf(it, x, cls)

    return _leafwise(it, v, pc, one)


def bi_issubclass(it, args, kwargs, pc):
    I = _I()
    a, b = args
    if isinstance(b, tuple):
        return any(bi_issubclass(it, [a, x], {}, pc) for x in b)
    if isinstance(a, I.ClassVal):
        if isinstance(b, I.ClassVal):
            return a.is_subclass_of(b)
        return any((not isinstance(c, I.ClassVal)) and issubclass(c, b) for c in a.mro)
    if isinstance(b, I.ClassVal):
        return False
    return it.vc.lift(issubclass, [a, b], pc, it.sink)


def bi_type(it, args, kwargs, pc):
    I = _I()
    if len(args) != 1:
        raise Unsupported("type() with 3 args")

    def one(x, p):
        if isinstance(x, I.Obj):
            return x.cls
        if isinstance(x, StructStr):
            return str
        if isinstance(x, SymList):
            return tuple if x.is_tuple else list
        if isinstance(x, SymDict):
            return collections.OrderedDict if x.ordered else dict
        if isinstance(x, Opaque):
            raise Unsupported("type of opaque")
        if isinstance(x, I.ClassVal):
            return type
        return it.vc.lift(type, [x], p, it.sink)

    return _leafwise(it, args[0], pc, one)


def bi_hash(it, args, kwargs, pc):
    I = _I()

    def one(x, p):
        if isinstance(x, I.Obj):
            f, _ = x.cls.lookup("__hash__")
            if isinstance(f, I.FuncVal):
                return it.call_function(f, [x], {}, p)
            return Opaque("hash", (x,))
        return Opaque("hash", (x,))

    v = args[0]
    if type(v) is U and not I.has_special(v):
        return Opaque("hash", (v,))
    return _leafwise(it, v, pc, one)


def bi_print(it, args, kwargs, pc):
    it.outputs.append((pc, list(args), dict(kwargs), it.frames[-1].module.name))
    return None


def bi_input(it, args, kwargs, pc):
    if it.input_fn is None:
        raise Unsupported("input() without a harness-provided answer stream")
    if args:
        it.outputs.append((pc, list(args), {"end": ""}, it.frames[-1].module.name))
    return it.input_fn(it, pc)


def bi_getattr(it, args, kwargs, pc):
    name = args[1]
    if not isinstance(name, str):
        raise Unsupported("getattr with symbolic name")
    fr = it.frames[-1]
    if len(args) == 2:
        return it.get_attr(args[0], name, fr, pc)
    # with default: AttributeError -> default
    fr.scopes.append([])
    try:
        v = it.get_attr(args[0], name, fr, pc)
    finally:
        raised = fr.scopes.pop()
    it._recompute_dead(fr)
    if not raised:
        return v
    c = it.vc.CF
    for cc, e in raised:
        c = it.vc.c_or(c, cc)
    return it.vc.select(c, args[2], v)


def bi_hasattr(it, args, kwargs, pc):
    name = args[1]
    fr = it.frames[-1]
    fr.scopes.append([])
    try:
        it.get_attr(args[0], name, fr, pc)
    finally:
        raised = fr.scopes.pop()
    it._recompute_dead(fr)
    c = it.vc.CF
    for cc, e in raised:
        c = it.vc.c_or(c, cc)
    return it.bool_value(it.vc.c_and(pc, it.vc.c_not(c))) if c is not it.vc.CF else True


def bi_setattr(it, args, kwargs, pc):
    it.set_attr(args[0], args[1], args[2], pc)
    return None


def bi_copy(it, args, kwargs, pc):
    v = args[0]
    I = _I()

    def one(x, p):
        if isinstance(x, SymDict):
            return symdict_copy(x)
        if isinstance(x, SymList):
            return SymList([list(e) for e in x.elems], is_tuple=x.is_tuple)
        if isinstance(x, I.Obj):
            o = I.Obj(x.cls)
            o.attrs = dict(x.attrs)
            return o
        if isinstance(x, (StructStr, Opaque)):
            return x
        return it.vc.lift(_copy.copy, [x], p, it.sink)

    return _leafwise(it, v, pc, one)


def bi_deepcopy(it, args, kwargs, pc):
    v = args[0]
    I = _I()

    def one(x, p):
        if isinstance(x, SymDict):
            n = symdict_copy(x)
            for k in n.keys:
                n.vals[k] = one(n.vals[k], p) if I.is_special(n.vals[k]) else n.vals[k]
            return n
        if isinstance(x, SymList):
            return SymList([[pp, one(e, p) if I.is_special(e) else e] for pp, e in x.elems], is_tuple=x.is_tuple)
        if isinstance(x, (StructStr, Opaque)):
            return x
        if I.is_special(x):
            raise Unsupported("deepcopy of %r" % (x,))
        return it.vc.lift(_copy.deepcopy, [x], p, it.sink)

    return _leafwise(it, v, pc, one)


def bi_json_dumps(it, args, kwargs, pc):
    return Opaque("json", (args[0], tuple(sorted((k, v) for k, v in kwargs.items() if _I().deep_concrete(v)))))


def bi_id(it, args, kwargs, pc):
    return Opaque("id", (args[0],))


def bi_unsupported(name):
    def h(it, args, kwargs, pc):
        raise Unsupported("builtin %s" % name)

    return h


def bi_abs(it, args, kwargs, pc):
    return it.vc.lift(abs, args, pc, it.sink)


def bi_map(it, args, kwargs, pc):
    f = args[0]
    vals = _seq_values(it, args[1], pc)
    if vals is None or len(args) != 2:
        raise Unsupported("map over optional elements")
    return SymIter([[it.vc.CT, it.call(f, [v], {}, pc)] for v in vals])


def bi_filter(it, args, kwargs, pc):
    f = args[0]
    out = SymIter([])
    fr = it.frames[-1]
    for pres, v in it.iter_items(args[1], fr, pc):
        r = v if f is None else it.call(f, [v], {}, pc)
        out.elems.append([it.vc.c_and(pres, it.truth(r, fr, pc)), v])
    return out


def bi_super(it, args, kwargs, pc):
    raise Unsupported("super()")


def bi_round(it, args, kwargs, pc):
    return it.vc.lift(round, args, pc, it.sink)


def make_builtins(it):
    b = {}
    for k, v in _bi.__dict__.items():
        b[k] = v
    for k in ("raw_input", "unicode", "basestring", "xrange", "long", "unichr", "reduce", "cmp"):
        b.pop(k, None)
    return b


def install_overrides(it):
    I = _I()
    ov = it.native_overrides
    it.float_of_special = None
    ov[len] = bi_len
    ov[str] = bi_str
    ov[repr] = bi_repr
    ov[float] = bi_float
    ov[int] = bi_int
    ov[bool] = bi_bool
    ov[min] = bi_minmax("min")
    ov[max] = bi_minmax("max")
    ov[sum] = bi_sum
    ov[all] = bi_allany("all")
    ov[any] = bi_allany("any")
    ov[tuple] = bi_tuple
    ov[list] = bi_list
    ov[set] = bi_set
    ov[frozenset] = bi_set
    ov[dict] = bi_dict_ctor(False)
    ov[collections.OrderedDict] = bi_dict_ctor(True)
    ov[sorted] = bi_sorted
    ov[enumerate] = bi_enumerate
    ov[zip] = bi_zip
    ov[reversed] = bi_reversed
    ov[next] = bi_next
    ov[isinstance] = bi_isinstance
    ov[issubclass] = bi_issubclass
    ov[type] = bi_type
    ov[hash] = bi_hash
    ov[print] = bi_print
    ov[input] = bi_input
    ov[getattr] = bi_getattr
    ov[hasattr] = bi_hasattr
    ov[setattr] = bi_setattr
    ov[id] = bi_id
    ov[abs] = bi_abs
    ov[round] = bi_round
    ov[map] = bi_map
    ov[filter] = bi_filter
    ov[super] = bi_super
    ov[_copy.copy] = bi_copy
    ov[_copy.deepcopy] = bi_deepcopy
    ov[_json.dumps] = bi_json_dumps
    def consuming(h):
        def w(it_, args, kwargs, pc):
            if any(type(a) is SymIter for a in args):
                args = [SymList([list(e) for e in it_.consume_iter(a, pc)]) if type(a) is SymIter else a for a in args]
            return h(it_, args, kwargs, pc)

        return w

    for f in (tuple, list, set, frozenset, dict, collections.OrderedDict, sorted, enumerate, zip, reversed, map, filter, sum, min, max):
        ov[f] = consuming(ov[f])
    for nm in ("open", "exec", "eval", "compile", "__import__", "globals", "locals", "vars", "dir", "iter", "delattr"):
        ov[getattr(_bi, nm)] = bi_unsupported(nm)
