"""
pysymex interpreter: if-converted symbolic execution of the Python subset used by /repo/cvss/*.py,
working from the source text (re-parsed on every run).

Every statement executes under an activity condition (Cond); stores are
`x := select(active, new, old)`; `return`/`raise`/`break`/`continue` under a symbolic condition
shrink the activity of what follows.  Nothing is forked: control flow is merged at the value level.
"""

import ast
import hashlib
import importlib
import operator
import os
import sys

from . import structstr as SS
from .values import (
    UNBOUND,
    Cond,
    EngineError,
    HeapObj,
    Opaque,
    Pair,
    StructStr,
    SymDict,
    SymIter,
    SymList,
    U,
    Unsupported,
    current_epoch,
    left,
    right,
    vkey,
)

sys.setrecursionlimit(20000)


# -- interpreter-level values ---------------------------------------------------------------------


class UnwindCut(RuntimeError):
    """raised (symbolically) on paths that need more loop iterations than the unwinding bound;
    harnesses exclude these paths from their verdicts and report the bound"""


class ModuleVal(object):
    def __init__(self, name, file, package):
        self.name = name
        self.file = file
        self.package = package
        self.globals = {}
        self.epoch = 0

    def __repr__(self):
        return "<module %s>" % self.name


class FuncVal(object):
    def __init__(self, node, module, closure, qualname, defaults, kwdefaults):
        self.node = node
        self.module = module
        self.closure = closure
        self.qualname = qualname
        self.name = node.name if hasattr(node, "name") else "<lambda>"
        self.defaults = defaults
        self.kwdefaults = kwdefaults
        self.kind = "function"
        self.owner = None

    def __repr__(self):
        return "<function %s>" % self.qualname


class ClassVal(object):
    def __init__(self, name, bases, ns, module):
        self.name = name
        self.bases = bases
        self.ns = ns
        self.module = module
        self.mro = self._mro()

    def _mro(self):
        out = [self]
        for b in self.bases:
            if isinstance(b, ClassVal):
                for c in b.mro:
                    if c not in out:
                        out.append(c)
            else:
                for c in b.__mro__:
                    if c not in out:
                        out.append(c)
        return out

    def lookup(self, name):
        for c in self.mro:
            if isinstance(c, ClassVal):
                if name in c.ns:
                    return c.ns[name], c
            else:
                if name in c.__dict__:
                    return ("real", c.__dict__[name]), c
        return None, None

    def is_subclass_of(self, other):
        return other in self.mro

    def is_exception(self):
        return any((not isinstance(c, ClassVal)) and issubclass(c, BaseException) for c in self.mro)

    def __repr__(self):
        return "<class %s>" % self.name


class Obj(HeapObj):
    __slots__ = ("cls", "attrs")

    def __init__(self, cls):
        self._init_heap()
        self.cls = cls
        self.attrs = {}

    def __repr__(self):
        return "<%s object>" % self.cls.name


class BoundMethod(object):
    __slots__ = ("func", "self")

    def __init__(self, func, selfv):
        self.func = func
        self.self = selfv


class MethodRef(object):
    """native method of a (possibly symbolic) receiver, resolved at call time"""

    __slots__ = ("recv", "name")

    def __init__(self, recv, name):
        self.recv = recv
        self.name = name


class NativeHandler(object):
    """builtin implemented by the interpreter: fn(interp, args, kwargs, pc) -> Value"""

    __slots__ = ("fn", "name")

    def __init__(self, fn, name):
        self.fn = fn
        self.name = name


class Loop(object):
    __slots__ = ("brk", "cont")

    def __init__(self, CF):
        self.brk = CF
        self.cont = CF


class Frame(object):
    def __init__(self, interp, module, closure, func):
        CF = interp.vc.CF
        self.locals = {}
        self.module = module
        self.closure = closure
        self.func = func
        self.ret_val = UNBOUND
        self.ret_c = CF
        self.loops = []
        self.scopes = [[]]
        self.dead = CF
        self.not_dead = interp.vc.CT
        self.globals_decl = set()
        self.handling = []


SPECIAL_TYPES = (StructStr, SymList, SymIter, SymDict, Opaque, Obj, ClassVal, ModuleVal, FuncVal, BoundMethod, MethodRef)

MUTATORS = {
    "append", "extend", "insert", "remove", "pop", "clear", "sort", "reverse", "update", "add",
    "discard", "setdefault", "popitem", "__setitem__", "__delitem__", "move_to_end",
    "difference_update", "intersection_update", "symmetric_difference_update",
}

BINOPS = {
    ast.Add: operator.add, ast.Sub: operator.sub, ast.Mult: operator.mul, ast.Div: operator.truediv,
    ast.FloorDiv: operator.floordiv, ast.Mod: operator.mod, ast.Pow: operator.pow,
    ast.LShift: operator.lshift, ast.RShift: operator.rshift, ast.BitOr: operator.or_,
    ast.BitAnd: operator.and_, ast.BitXor: operator.xor, ast.MatMult: operator.matmul,
}
CMPOPS = {
    ast.Eq: operator.eq, ast.NotEq: operator.ne, ast.Lt: operator.lt, ast.LtE: operator.le,
    ast.Gt: operator.gt, ast.GtE: operator.ge, ast.Is: operator.is_, ast.IsNot: operator.is_not,
}
UNOPS = {ast.USub: operator.neg, ast.UAdd: operator.pos, ast.Invert: operator.invert}


def is_special(v):
    return isinstance(v, SPECIAL_TYPES)


def has_special(v):
    t = type(v)
    if t is U:
        for g, leaf in v.alts:
            if isinstance(leaf, SPECIAL_TYPES):
                return True
            if type(leaf) is Pair and (isinstance(leaf.l, SPECIAL_TYPES) or isinstance(leaf.r, SPECIAL_TYPES)):
                return True
        return False
    if t is Pair:
        return isinstance(v.l, SPECIAL_TYPES) or isinstance(v.r, SPECIAL_TYPES)
    return isinstance(v, SPECIAL_TYPES)


def deep_concrete(v):
    t = type(v)
    return not (t is U or t is Pair or t is StructStr or t is SymList or t is SymIter or t is SymDict or t is Opaque or v is UNBOUND)


class Interp(object):
    def __init__(self, vc, repo_root="/repo", extra_roots=None):
        self.vc = vc
        self.m = vc.m
        self.repo_root = repo_root
        self.roots = [repo_root] + list(extra_roots or [])
        self.modules = {}
        self.stub_modules = {}  # real module name -> object used instead
        self.frames = []
        self.effects = []
        self.dict_order_iterations = 0
        self.ambient_reads = []
        self.outputs = []
        self.while_bound = 3
        self.unwind_cuts = []
        self.native_overrides = {}
        self.files_read = {}
        self.functions_encoded = {}
        self.max_format_product = 256
        self.input_fn = None
        self.print_mode = "log"
        self.hash_order_iterations = []
        from . import natives

        self.builtins = natives.make_builtins(self)
        natives.install_overrides(self)
        self.natives = natives

    # ------------------------------------------------------------------------------------------
    # modules
    # ------------------------------------------------------------------------------------------

    def find_module_file(self, qualname):
        rel = qualname.replace(".", os.sep)
        for root in self.roots:
            p = os.path.join(root, rel, "__init__.py")
            if os.path.isfile(p):
                return p, True
            p = os.path.join(root, rel + ".py")
            if os.path.isfile(p):
                return p, False
        return None, False

    def load_module(self, qualname):
        if qualname in self.modules:
            return self.modules[qualname]
        path, is_pkg = self.find_module_file(qualname)
        if path is None:
            raise ImportError(qualname)
        # parents first
        if "." in qualname:
            self.load_module(qualname.rsplit(".", 1)[0])
        with open(path, "rb") as f:
            src = f.read()
        self.files_read[path] = hashlib.sha256(src).hexdigest()
        tree = ast.parse(src, path)
        package = qualname if is_pkg else (qualname.rsplit(".", 1)[0] if "." in qualname else "")
        mod = ModuleVal(qualname, path, package)
        mod.globals["__name__"] = qualname
        mod.globals["__doc__"] = ast.get_docstring(tree)
        mod.globals["__file__"] = path
        self.modules[qualname] = mod
        fr = Frame(self, mod, None, None)
        fr.locals = mod.globals
        self.frames.append(fr)
        try:
            self.exec_block(tree.body, fr, self.vc.CT)
        finally:
            self.frames.pop()
        if fr.scopes[0]:
            c, e = fr.scopes[0][0]
            raise Unsupported("module %s raised %r at import" % (qualname, e))
        if "." in qualname:
            parent, leaf = qualname.rsplit(".", 1)
            self.modules[parent].globals.setdefault(leaf, mod)
        return mod

    def import_name(self, name, frommod, level):
        """returns module value (ModuleVal or real module/stub)"""
        if level:
            pkg = frommod.package
            for _ in range(level - 1):
                pkg = pkg.rsplit(".", 1)[0]
            name = pkg + ("." + name if name else "")
        if name in self.stub_modules:
            return self.stub_modules[name]
        path, _ = self.find_module_file(name)
        if path is not None:
            return self.load_module(name)
        if name == "__future__":
            return importlib.import_module(name)
        try:
            return importlib.import_module(name)
        except ImportError as e:
            return e

    # ------------------------------------------------------------------------------------------
    # activity / exceptions
    # ------------------------------------------------------------------------------------------

    def live(self, fr, pc):
        if fr.dead is self.vc.CF:
            return pc
        return self.vc.c_and(pc, fr.not_dead)

    def _add_dead(self, fr, c):
        vc = self.vc
        fr.dead = vc.c_or(fr.dead, c)
        fr.not_dead = vc.c_not(fr.dead)

    def _recompute_dead(self, fr):
        vc = self.vc
        d = fr.ret_c
        for lp in fr.loops:
            d = vc.c_or(d, vc.c_or(lp.brk, lp.cont))
        for sc in fr.scopes:
            for c, e in sc:
                d = vc.c_or(d, c)
        d = vc.c_find(d)
        if d.l is self.vc.F and d.r is self.vc.F:
            fr.dead = vc.CF
            fr.not_dead = vc.CT
        else:
            fr.dead = d
            fr.not_dead = vc.c_not(d)

    def raise_exc(self, cond, exc, fr=None):
        """register a raise of exc under cond in the current exception scope"""
        vc = self.vc
        if fr is None:
            fr = self.frames[-1]
        cond = self.live(fr, cond)
        if vc.c_is_false(cond):
            return
        cond = vc.c_find(cond)
        sc = fr.scopes[-1]
        if isinstance(exc, BaseException):
            # group real exceptions by type
            for i, (c, e) in enumerate(sc):
                if isinstance(e, BaseException) and type(e) is type(exc):
                    sc[i] = (vc.c_or(c, cond), e)
                    self._add_dead(fr, cond)
                    return
        sc.append((cond, exc))
        self._add_dead(fr, cond)

    def sink(self, cond, exc):
        self.raise_exc(cond, exc)

    def exc_matches(self, exc, htype):
        if isinstance(htype, tuple):
            return any(self.exc_matches(exc, h) for h in htype)
        if isinstance(htype, SymList):
            return any(self.exc_matches(exc, v) for p, v in htype.elems)
        if isinstance(exc, Obj):
            if isinstance(htype, ClassVal):
                return exc.cls.is_subclass_of(htype)
            if isinstance(htype, type):
                return any((not isinstance(c, ClassVal)) and issubclass(c, htype) for c in exc.cls.mro)
            return False
        if isinstance(exc, BaseException):
            if isinstance(htype, type):
                return isinstance(exc, htype)
            return False
        return False

    # ------------------------------------------------------------------------------------------
    # statements
    # ------------------------------------------------------------------------------------------

    def exec_block(self, stmts, fr, pc):
        vc = self.vc
        for st in stmts:
            act = self.live(fr, pc)
            if act is not pc and vc.c_is_false(act):
                return
            getattr(self, "st_" + type(st).__name__, self.st_unsupported)(st, fr, act)

    def st_unsupported(self, st, fr, pc):
        raise Unsupported("statement %s at line %s" % (type(st).__name__, getattr(st, "lineno", "?")))

    def st_Expr(self, st, fr, pc):
        self.ev(st.value, fr, pc)

    def st_Pass(self, st, fr, pc):
        pass

    def st_Global(self, st, fr, pc):
        fr.globals_decl.update(st.names)

    def st_Nonlocal(self, st, fr, pc):
        raise Unsupported("nonlocal")

    def st_Assign(self, st, fr, pc):
        v = self.ev(st.value, fr, pc)
        pc = self.live(fr, pc)
        for t in st.targets:
            self.assign(t, v, fr, pc)

    def st_AnnAssign(self, st, fr, pc):
        if st.value is not None:
            v = self.ev(st.value, fr, pc)
            self.assign(st.target, v, fr, self.live(fr, pc))

    def st_AugAssign(self, st, fr, pc):
        t = st.target
        if isinstance(t, ast.Name):
            cur = self.ev(ast.Name(id=t.id, ctx=ast.Load()), fr, pc)
        elif isinstance(t, ast.Attribute):
            cur = self.ev(ast.Attribute(value=t.value, attr=t.attr, ctx=ast.Load()), fr, pc)
        elif isinstance(t, ast.Subscript):
            cur = self.ev(ast.Subscript(value=t.value, slice=t.slice, ctx=ast.Load()), fr, pc)
        else:
            raise Unsupported("augassign target")
        rhs = self.ev(st.value, fr, pc)
        pc = self.live(fr, pc)
        if isinstance(cur, SymList) and isinstance(st.op, ast.Add):
            # list += iterable  (in place)
            self.natives.symlist_extend(self, cur, rhs, pc)
            return
        v = self.binop(type(st.op), cur, rhs, fr, pc)
        self.assign(t, v, fr, self.live(fr, pc))

    def st_Delete(self, st, fr, pc):
        for t in st.targets:
            if isinstance(t, ast.Name):
                old = fr.locals.get(t.id, UNBOUND)
                fr.locals[t.id] = self.vc.select(pc, UNBOUND, old)
            elif isinstance(t, ast.Subscript):
                recv = self.ev(t.value, fr, pc)
                key = self.ev(t.slice, fr, pc)
                self.natives.del_item(self, recv, key, self.live(fr, pc))
            else:
                raise Unsupported("del target")

    def st_If(self, st, fr, pc):
        vc = self.vc
        c = self.truth(self.ev(st.test, fr, pc), fr, pc)
        pc = self.live(fr, pc)
        if c is vc.CT:
            self.exec_block(st.body, fr, pc)
            return
        if c is vc.CF:
            self.exec_block(st.orelse, fr, pc)
            return
        tpc = vc.c_and(pc, c)
        if not vc.c_is_false(tpc):
            self.exec_block(st.body, fr, vc.c_find(tpc))
        if st.orelse:
            epc = vc.c_and(pc, vc.c_not(c))
            if not vc.c_is_false(epc):
                self.exec_block(st.orelse, fr, vc.c_find(epc))

    def iter_items(self, it, fr, pc):
        """yield (presence Cond, element Value) for the elements of iterable `it`"""
        vc = self.vc
        t = type(it)
        if t is SymList:
            if it.origin == "symkey-view":
                self.dict_order_iterations += 1
            for pres, v in list(it.elems):
                yield pres, v
            return
        if t is SymIter:
            for pres, v in self.consume_iter(it, pc):
                yield pres, v
            return
        if t is SymDict:
            if it.symkeys:
                self.dict_order_iterations += 1
            for k in list(it.keys):
                yield it.pres[k], k
            return
        if t is U:
            for g, leaf in it.alts:
                for pres, v in self.iter_items(leaf, fr, pc):
                    yield vc.c_andg(pres, g), v
            return
        if t is Pair:
            # product execution: the two sides iterate over their own sequences; the loop runs
            # to the longer length with per-side activity
            from .values import mkpair

            def side(x):
                """[(presence Cond, value)] of one side's sequence"""
                if x is UNBOUND:
                    return []
                if type(x) is SymList:
                    return [(p_, v) for p_, v in x.elems]
                try:
                    return [(vc.CT, v) for v in x]
                except Exception:  # noqa: BLE001
                    raise Unsupported("iteration over %r" % (it,))

            la, lb = side(it.l), side(it.r)
            T, F = vc.T, vc.F
            if all(vc.c_is_true(p_) for p_, _ in la) and all(vc.c_is_true(p_) for p_, _ in lb):
                # lockstep (the values of the two runs stay paired)
                for i in range(max(len(la), len(lb))):
                    pres = Cond(T if i < len(la) else F, T if i < len(lb) else F)
                    yield pres, mkpair(la[i][1] if i < len(la) else UNBOUND, lb[i][1] if i < len(lb) else UNBOUND)
                return
            # optional elements: the two runs are independent, so the left run's iterations may
            # all come before the right run's (each side keeps its own order; a body execution
            # is active on one side only)
            for p_, v in la:
                yield Cond(p_.l, F), mkpair(v, UNBOUND)
            for p_, v in lb:
                yield Cond(F, p_.r), mkpair(UNBOUND, v)
            return
        if t is StructStr or t is Opaque or isinstance(it, (Obj, ClassVal)):
            raise Unsupported("iteration over %r" % (it,))
        if isinstance(it, (set, frozenset)):
            self.hash_order_iterations.append(("set", pc))
        try:
            items = list(it)
        except Exception as e:  # noqa: BLE001
            self.raise_exc(pc, e)
            return
        for v in items:
            yield vc.CT, v

    def consume_iter(self, sit, pc, upto=None):
        """elements a consumer running under pc receives from a one-shot iterator; afterwards
        the iterator holds what is left.  upto=None: everything is consumed; otherwise
        upto(i, pres, value) -> Cond "the consumer stops right after element i" (any / all /
        next), and element j stays iff the consumer is not running or stopped at some i < j."""
        vc = self.vc
        if sit.indeterminate:
            raise Unsupported("iterator consumed again after a loop that may have left it half-way")
        snap = [(p, v) for p, v in sit.elems]
        if sit.epoch < current_epoch():
            self.log_effect("iterator-consume", sit, None, pc)
        new = []
        stopped = vc.CF
        for i, (p, v) in enumerate(snap):
            keep = vc.c_not(pc) if upto is None else vc.c_or(vc.c_not(pc), stopped)
            np_ = vc.c_and(p, keep)
            if not vc.c_is_false(np_):
                new.append([np_, v])
            if upto is not None:
                stopped = vc.c_or(stopped, vc.c_and(p, upto(i, p, v)))
        sit.elems = new
        return snap

    def st_For(self, st, fr, pc):
        vc = self.vc
        it = self.ev(st.iter, fr, pc)
        if type(it) is SymIter and any(isinstance(x, (ast.Break, ast.Return)) for b in st.body for x in ast.walk(b)):
            # what a broken-off loop leaves in the iterator is not modelled: a later consumer
            # of the same iterator is refused
            snap = self.consume_iter(it, pc)
            it.indeterminate = True
            it = SymList([list(e) for e in snap])
        pc = self.live(fr, pc)
        lp = Loop(vc.CF)
        fr.loops.append(lp)
        for pres, v in self.iter_items(it, fr, pc):
            if lp.cont is not vc.CF:
                lp.cont = vc.CF
                self._recompute_dead(fr)
            ipc = self.live(fr, vc.c_and(pc, pres))
            if vc.c_is_false(ipc):
                continue
            ipc = vc.c_find(ipc)
            self.assign(st.target, v, fr, ipc)
            self.exec_block(st.body, fr, ipc)
        brk = lp.brk
        fr.loops.pop()
        self._recompute_dead(fr)
        if st.orelse:
            epc = self.live(fr, vc.c_and(pc, vc.c_not(brk)))
            if not vc.c_is_false(epc):
                self.exec_block(st.orelse, fr, epc)

    def st_While(self, st, fr, pc):
        vc = self.vc
        lp = Loop(vc.CF)
        fr.loops.append(lp)
        it = 0
        while True:
            if lp.cont is not vc.CF:
                lp.cont = vc.CF
                self._recompute_dead(fr)
            act = self.live(fr, pc)
            if vc.c_is_false(act):
                break
            c = self.truth(self.ev(st.test, fr, act), fr, act)
            act = self.live(fr, act)
            ipc = vc.c_and(act, c)
            npc = vc.c_and(act, vc.c_not(c))
            if not vc.c_is_false(npc):
                # loop exits normally under npc: model as break
                lp.brk = vc.c_or(lp.brk, npc)
                self._add_dead(fr, npc)
            if vc.c_is_false(ipc):
                break
            if it >= self.while_bound:
                # unwinding cut: paths needing more iterations are cut (recorded, reported)
                self.unwind_cuts.append((st.lineno, vc.c_find(ipc)))
                self.raise_exc(ipc, UnwindCut("loop at line %d needs more than %d iterations" % (st.lineno, self.while_bound)))
                break
            self.exec_block(st.body, fr, vc.c_find(ipc))
            it += 1
        fr.loops.pop()
        self._recompute_dead(fr)
        if st.orelse:
            raise Unsupported("while-else")

    def st_Break(self, st, fr, pc):
        lp = fr.loops[-1]
        lp.brk = self.vc.c_or(lp.brk, pc)
        self._add_dead(fr, pc)

    def st_Continue(self, st, fr, pc):
        lp = fr.loops[-1]
        lp.cont = self.vc.c_or(lp.cont, pc)
        self._add_dead(fr, pc)

    def st_Return(self, st, fr, pc):
        v = None if st.value is None else self.ev(st.value, fr, pc)
        pc = self.live(fr, pc)
        fr.ret_val = self.vc.select(pc, v, fr.ret_val)
        fr.ret_c = self.vc.c_or(fr.ret_c, pc)
        self._add_dead(fr, pc)

    def st_Raise(self, st, fr, pc):
        if st.exc is None:
            if not fr.handling:
                self.raise_exc(pc, RuntimeError("No active exception to reraise"))
                return
            self.raise_exc(pc, fr.handling[-1])
            return
        e = self.ev(st.exc, fr, pc)
        pc = self.live(fr, pc)
        self.raise_value(e, fr, pc)

    def raise_value(self, e, fr, pc):
        if isinstance(e, ClassVal):
            e = self.instantiate(e, [], {}, pc)
            pc = self.live(fr, pc)
        elif isinstance(e, type) and issubclass(e, BaseException):
            e = e()
        if type(e) is U:
            for g, leaf in e.alts:
                self.raise_value(leaf, fr, self.vc.c_andg(pc, g))
            return
        if isinstance(e, Obj) and e.cls.is_exception():
            self.raise_exc(pc, e)
        elif isinstance(e, BaseException):
            self.raise_exc(pc, e)
        else:
            self.raise_exc(pc, TypeError("exceptions must derive from BaseException"))

    def st_Assert(self, st, fr, pc):
        c = self.truth(self.ev(st.test, fr, pc), fr, pc)
        pc = self.live(fr, pc)
        bad = self.vc.c_and(pc, self.vc.c_not(c))
        if not self.vc.c_is_false(bad):
            self.raise_exc(bad, AssertionError())

    def st_Try(self, st, fr, pc):
        vc = self.vc
        fr.scopes.append([])
        try:
            self.exec_block(st.body, fr, pc)
        finally:
            raised = fr.scopes.pop()
        self._recompute_dead(fr)
        rc = vc.CF
        for c, e in raised:
            rc = vc.c_or(rc, c)
        handled = []  # per handler: list of (cond, exc)
        for _ in st.handlers:
            handled.append([])
        for c, e in raised:
            placed = False
            for i, h in enumerate(st.handlers):
                if h.type is None:
                    ok = True
                else:
                    ht = self.ev(h.type, fr, pc)
                    ok = self.exc_matches(e, ht)
                if ok:
                    handled[i].append((c, e))
                    placed = True
                    break
            if not placed:
                fr.scopes[-1].append((c, e))
                self._add_dead(fr, c)
        for i, h in enumerate(st.handlers):
            if not handled[i]:
                continue
            hc = vc.CF
            for c, e in handled[i]:
                hc = vc.c_or(hc, c)
            hpc = self.live(fr, hc)
            if vc.c_is_false(hpc):
                continue
            if len(handled[i]) == 1:
                ev_ = handled[i][0][1]
            else:
                ev_ = vc.mk_union([(vc.c_any(c), e) for c, e in handled[i]], sweep=False)
            if h.name:
                self.assign(ast.Name(id=h.name, ctx=ast.Store()), ev_, fr, hpc)
            fr.handling.append(ev_)
            try:
                self.exec_block(h.body, fr, hpc)
            finally:
                fr.handling.pop()
        if st.orelse:
            epc = self.live(fr, vc.c_and(pc, vc.c_not(rc)))
            if not vc.c_is_false(epc):
                self.exec_block(st.orelse, fr, epc)
        if st.finalbody:
            # executed whenever the try statement was entered; pending leaves are suspended
            saved = (fr.dead, fr.not_dead)
            fr.dead, fr.not_dead = vc.CF, vc.CT
            self.exec_block(st.finalbody, fr, pc)
            nd = fr.dead
            fr.dead, fr.not_dead = saved
            if nd is not vc.CF:
                self._recompute_dead(fr)

    def st_FunctionDef(self, st, fr, pc):
        fv = self.make_function(st, fr)
        for dec in reversed(st.decorator_list):
            d = self.ev(dec, fr, pc)
            if d is classmethod:
                fv.kind = "classmethod"
            elif d is staticmethod:
                fv.kind = "staticmethod"
            elif d is property:
                fv.kind = "property"
            else:
                raise Unsupported("decorator %r" % (d,))
        self.assign(ast.Name(id=st.name, ctx=ast.Store()), fv, fr, pc)

    def make_function(self, node, fr):
        a = node.args
        defaults = [self.ev(d, fr, self.vc.CT) for d in a.defaults]
        kwdefaults = [None if d is None else self.ev(d, fr, self.vc.CT) for d in a.kw_defaults]
        qual = (fr.func.qualname + "." if fr.func is not None else "") + getattr(node, "name", "<lambda>")
        if fr.func is None and getattr(fr, "class_name", None):
            qual = fr.class_name + "." + getattr(node, "name", "<lambda>")
        closure = fr if fr.func is not None else None
        fv = FuncVal(node, fr.module, closure, qual, defaults, kwdefaults)
        return fv

    def st_ClassDef(self, st, fr, pc):
        bases = [self.ev(b, fr, pc) for b in st.bases]
        if st.keywords:
            raise Unsupported("class keywords")
        cfr = Frame(self, fr.module, fr.closure if fr.func is not None else None, fr.func)
        cfr.class_name = st.name
        cfr.func = None
        self.frames.append(cfr)
        try:
            self.exec_block(st.body, cfr, pc)
        finally:
            self.frames.pop()
        if cfr.scopes[0]:
            raise Unsupported("exception in class body")
        cls = ClassVal(st.name, bases or [object], cfr.locals, fr.module)
        for k, v in cfr.locals.items():
            if isinstance(v, FuncVal):
                v.owner = cls
        if st.decorator_list:
            raise Unsupported("class decorator")
        self.assign(ast.Name(id=st.name, ctx=ast.Store()), cls, fr, pc)

    def st_Import(self, st, fr, pc):
        for al in st.names:
            mod = self.import_name(al.name, fr.module, 0)
            if isinstance(mod, ImportError):
                self.raise_exc(pc, mod)
                continue
            if al.asname:
                self.assign(ast.Name(id=al.asname, ctx=ast.Store()), mod, fr, pc)
            else:
                top = al.name.split(".")[0]
                topmod = self.import_name(top, fr.module, 0)
                self.assign(ast.Name(id=top, ctx=ast.Store()), topmod, fr, pc)

    def st_ImportFrom(self, st, fr, pc):
        mod = self.import_name(st.module or "", fr.module, st.level)
        if isinstance(mod, ImportError):
            self.raise_exc(pc, mod)
            return
        for al in st.names:
            if al.name == "*":
                raise Unsupported("import *")
            if isinstance(mod, ModuleVal):
                if al.name in mod.globals:
                    v = mod.globals[al.name]
                else:
                    sub = self.import_name(mod.name + "." + al.name, fr.module, 0)
                    if isinstance(sub, ImportError):
                        self.raise_exc(pc, ImportError("cannot import name %s" % al.name))
                        continue
                    v = sub
            else:
                try:
                    v = getattr(mod, al.name)
                except AttributeError:
                    self.raise_exc(pc, ImportError("cannot import name %s" % al.name))
                    continue
            self.assign(ast.Name(id=al.asname or al.name, ctx=ast.Store()), v, fr, self.live(fr, pc))

    def st_With(self, st, fr, pc):
        raise Unsupported("with statement")

    # ------------------------------------------------------------------------------------------
    # stores
    # ------------------------------------------------------------------------------------------

    def log_effect(self, kind, target, key, pc):
        self.effects.append((kind, target, key, pc, current_epoch()))

    def assign(self, t, v, fr, pc):
        vc = self.vc
        tt = type(t)
        if tt is ast.Name:
            if t.id in fr.globals_decl:
                g = fr.module.globals
                self.log_effect("global-store", fr.module, t.id, pc)
                g[t.id] = vc.select(pc, v, g.get(t.id, UNBOUND))
                return
            if fr.locals is fr.module.globals and current_epoch() > 0:
                self.log_effect("global-store", fr.module, t.id, pc)
            old = fr.locals.get(t.id, UNBOUND)
            fr.locals[t.id] = v if pc is vc.CT else vc.select(pc, v, old)
            return
        if tt is ast.Attribute:
            recv = self.ev(t.value, fr, pc)
            self.set_attr(recv, t.attr, v, self.live(fr, pc))
            return
        if tt is ast.Subscript:
            recv = self.ev(t.value, fr, pc)
            key = self.ev(t.slice, fr, pc)
            self.natives.set_item(self, recv, key, v, self.live(fr, pc))
            return
        if tt is ast.Tuple or tt is ast.List:
            if any(isinstance(e, ast.Starred) for e in t.elts):
                raise Unsupported("starred assignment")
            parts = self.unpack(v, len(t.elts), fr, pc)
            pc = self.live(fr, pc)
            if parts is None:
                return
            for e, p in zip(t.elts, parts):
                self.assign(e, p, fr, pc)
            return
        raise Unsupported("assignment target %s" % tt.__name__)

    def set_attr(self, recv, name, v, pc):
        vc = self.vc
        if isinstance(recv, Obj):
            if recv.epoch < current_epoch():
                self.log_effect("attr-store", recv, name, pc)
            old = recv.attrs.get(name, UNBOUND)
            recv.attrs[name] = v if pc is vc.CT else vc.select(pc, v, old)
            return
        if type(recv) is U:
            for g, leaf in recv.alts:
                self.set_attr(leaf, name, v, vc.c_andg(pc, g))
            return
        if isinstance(recv, (ClassVal, ModuleVal)):
            self.log_effect("attr-store", recv, name, pc)
            ns = recv.ns if isinstance(recv, ClassVal) else recv.globals
            ns[name] = vc.select(pc, v, ns.get(name, UNBOUND))
            return
        if is_special(recv) or type(recv) is Pair:
            raise Unsupported("attribute store on %r" % (recv,))
        # real Python object: an ambient / library-level mutation
        self.log_effect("native-attr-store", recv, name, pc)
        raise Unsupported("attribute store on real object %r.%s" % (type(recv).__name__, name))

    def unpack(self, v, n, fr, pc):
        """returns list of n Values, raising ValueError symbolically where the length differs"""
        vc = self.vc
        t = type(v)
        if t is SymList:
            elems = v.elems
            if self.natives.all_present_under(self, v, pc):
                if len(elems) != n:
                    self.raise_exc(pc, ValueError("unpack: expected %d values, got %d" % (n, len(elems))))
                    return None
                return [e for _, e in elems]
            vals, exact = self.natives.symlist_positions(self, v, n)
            bad = vc.c_and(pc, vc.c_not(exact))
            if not vc.c_is_false(bad):
                self.raise_exc(bad, ValueError("unpack: wrong number of values"))
            return vals
        if t is U:
            per = []
            for g, leaf in v.alts:
                apc = vc.c_andg(pc, g)
                if vc.c_is_false(apc):
                    continue
                parts = self.unpack(leaf, n, fr, apc)
                if parts is not None:
                    per.append((g, parts))
            if not per:
                return None
            out = []
            for i in range(n):
                out.append(vc.mk_union([(g, parts[i]) for g, parts in per], sweep=False))
            return out
        if t is Pair:
            lp = self.unpack(v.l, n, fr, Cond(pc.l, self.vc.F))
            rp = self.unpack(v.r, n, fr, Cond(self.vc.F, pc.r))
            if lp is None or rp is None:
                raise Unsupported("pair unpack with failing side")
            from .values import mkpair

            return [mkpair(a, b) for a, b in zip(lp, rp)]
        if t is StructStr or t is Opaque or isinstance(v, (Obj, SymDict)):
            raise Unsupported("unpack of %r" % (v,))
        try:
            items = list(v)
        except Exception as e:  # noqa: BLE001
            self.raise_exc(pc, e)
            return None
        if len(items) != n:
            self.raise_exc(pc, ValueError("not enough/too many values to unpack (expected %d, got %d)" % (n, len(items))))
            return None
        return items

    # ------------------------------------------------------------------------------------------
    # expressions
    # ------------------------------------------------------------------------------------------

    def ev(self, node, fr, pc):
        return getattr(self, "ex_" + type(node).__name__, self.ex_unsupported)(node, fr, pc)

    def ex_unsupported(self, node, fr, pc):
        raise Unsupported("expression %s at line %s" % (type(node).__name__, getattr(node, "lineno", "?")))

    def ex_Constant(self, node, fr, pc):
        return node.value

    def need_bound(self, v, what, fr, pc):
        vc = self.vc
        if v is UNBOUND:
            self.raise_exc(pc, UnboundLocalError(what))
            return UNBOUND
        if type(v) is U:
            for g, leaf in v.alts:
                if leaf is UNBOUND:
                    bad = vc.c_andg(pc, g)
                    if not vc.c_is_false(bad):
                        self.raise_exc(bad, UnboundLocalError(what))
                    return vc.mk_union([(g2, l2) for g2, l2 in v.alts if l2 is not UNBOUND], sweep=False)
        return v

    def lookup_name(self, name, fr):
        f = fr
        if name in f.locals and name not in f.globals_decl:
            return f.locals[name], True
        f = fr.closure
        while f is not None:
            if name in f.locals:
                return f.locals[name], True
            f = f.closure
        g = fr.module.globals
        if name in g:
            return g[name], True
        if name in self.builtins:
            return self.builtins[name], True
        return None, False

    def ex_Name(self, node, fr, pc):
        v, ok = self.lookup_name(node.id, fr)
        if not ok:
            self.raise_exc(pc, NameError("name '%s' is not defined" % node.id))
            return UNBOUND
        return self.need_bound(v, node.id, fr, pc)

    def ex_Tuple(self, node, fr, pc):
        items = self.eval_list(node.elts, fr, pc)
        if all(deep_concrete(x) for x in items):
            return tuple(items)
        return SymList([[self.vc.CT, x] for x in items], is_tuple=True)

    def ex_List(self, node, fr, pc):
        items = self.eval_list(node.elts, fr, pc)
        if fr.func is None and all(deep_concrete(x) for x in items):
            return list(items)
        return SymList([[self.vc.CT, x] for x in items])

    def ex_Set(self, node, fr, pc):
        items = self.eval_list(node.elts, fr, pc)
        if all(deep_concrete(x) and not is_special(x) for x in items):
            return set(items)
        # interpreted objects / symbolic members: membership through the interpreted
        # __hash__ / __eq__, like set(...)
        return self.natives.bi_set(self, [SymList([[self.vc.CT, x] for x in items])], {}, self.live(fr, pc))

    def eval_list(self, elts, fr, pc):
        out = []
        for e in elts:
            if isinstance(e, ast.Starred):
                it = self.ev(e.value, fr, pc)
                for pres, v in self.iter_items(it, fr, pc):
                    if pres is not self.vc.CT and not self.vc.c_is_true(pres):
                        raise Unsupported("starred optional elements")
                    out.append(v)
            else:
                out.append(self.ev(e, fr, pc))
        return out

    def ex_Dict(self, node, fr, pc):
        keys = []
        vals = []
        for k, v in zip(node.keys, node.values):
            if k is None:
                raise Unsupported("dict unpacking")
            keys.append(self.ev(k, fr, pc))
            vals.append(self.ev(v, fr, pc))
        if fr.func is None and all(deep_concrete(x) for x in keys) and all(deep_concrete(x) for x in vals):
            return dict(zip(keys, vals))
        d = SymDict()
        pcl = self.live(fr, pc)
        for k, v in zip(keys, vals):
            self.natives.symdict_set(self, d, k, v, self.vc.CT)
        return d

    def ex_JoinedStr(self, node, fr, pc):
        parts = []
        for v in node.values:
            if isinstance(v, ast.Constant):
                parts.append(v.value)
            else:
                val = self.ev(v.value, fr, pc)
                if v.format_spec is not None or v.conversion not in (-1, 115):
                    raise Unsupported("f-string format spec")
                parts.append(self.natives.to_str(self, val, self.live(fr, pc)))
        res = ""
        for p in parts:
            res = self.binop(ast.Add, res, p, fr, self.live(fr, pc))
        return res

    def ex_Lambda(self, node, fr, pc):
        return self.make_function(node, fr)

    def ex_IfExp(self, node, fr, pc):
        vc = self.vc
        c = self.truth(self.ev(node.test, fr, pc), fr, pc)
        pc = self.live(fr, pc)
        if c is vc.CT:
            return self.ev(node.body, fr, pc)
        if c is vc.CF:
            return self.ev(node.orelse, fr, pc)
        tpc = vc.c_and(pc, c)
        epc = vc.c_and(pc, vc.c_not(c))
        tf = vc.c_is_false(tpc)
        ef = vc.c_is_false(epc)
        if tf and ef:
            return UNBOUND
        if tf:
            return self.ev(node.orelse, fr, epc)
        if ef:
            return self.ev(node.body, fr, tpc)
        a = self.ev(node.body, fr, tpc)
        b = self.ev(node.orelse, fr, epc)
        return vc.select(c, a, b)

    def ex_BoolOp(self, node, fr, pc):
        vc = self.vc
        is_and = isinstance(node.op, ast.And)
        res = self.ev(node.values[0], fr, pc)
        for nxt in node.values[1:]:
            pc = self.live(fr, pc)
            c = self.truth(res, fr, pc)
            if is_and:
                if c is vc.CF:
                    return res
                go = c
            else:
                if c is vc.CT:
                    return res
                go = vc.c_not(c)
            npc = vc.c_and(pc, go)
            if vc.c_is_false(npc):
                return res
            nv = self.ev(nxt, fr, vc.c_find(npc))
            if go is vc.CT or vc.c_is_true(go):
                res = nv
            else:
                res = vc.select(go, nv, res)
        return res

    def ex_UnaryOp(self, node, fr, pc):
        v = self.ev(node.operand, fr, pc)
        pc = self.live(fr, pc)
        if isinstance(node.op, ast.Not):
            return self.bool_value(self.vc.c_not(self.truth(v, fr, pc)))
        return self.vc.lift(UNOPS[type(node.op)], [v], pc, self.sink)

    def ex_BinOp(self, node, fr, pc):
        a = self.ev(node.left, fr, pc)
        b = self.ev(node.right, fr, pc)
        return self.binop(type(node.op), a, b, fr, self.live(fr, pc))

    def binop(self, op, a, b, fr, pc):
        if has_special(a) or has_special(b):
            return self.natives.special_binop(self, op, a, b, pc)
        return self.vc.lift(BINOPS[op], [a, b], pc, self.sink)

    def ex_Compare(self, node, fr, pc):
        vc = self.vc
        leftv = self.ev(node.left, fr, pc)
        res = None
        cond = vc.CT
        for op, rn in zip(node.ops, node.comparators):
            pc2 = self.live(fr, pc)
            if res is not None:
                # chained: evaluate next only where previous holds
                c = self.truth(res, fr, pc2)
                cond = c if cond is vc.CT else vc.c_and(cond, c)
                pc2 = vc.c_and(pc2, cond)
                if vc.c_is_false(pc2):
                    break
            rightv = self.ev(rn, fr, pc2)
            pc2 = self.live(fr, pc2)
            r = self.compare(type(op), leftv, rightv, fr, pc2)
            if res is None:
                res = r
            else:
                res = vc.select(cond, r, res)
            leftv = rightv
        return res

    def compare(self, op, a, b, fr, pc):
        if op is ast.In:
            return self.natives.contains(self, b, a, pc)
        if op is ast.NotIn:
            r = self.natives.contains(self, b, a, pc)
            return self.bool_value(self.vc.c_not(self.truth(r, fr, pc)))
        if has_special(a) or has_special(b):
            return self.natives.special_compare(self, op, a, b, pc)
        return self.vc.lift(CMPOPS[op], [a, b], pc, self.sink)

    def ex_Attribute(self, node, fr, pc):
        recv = self.ev(node.value, fr, pc)
        return self.get_attr(recv, node.attr, fr, self.live(fr, pc))

    def get_attr(self, recv, name, fr, pc):
        vc = self.vc
        t = type(recv)
        if t is Obj:
            if name in recv.attrs:
                return self.need_bound(recv.attrs[name], name, fr, pc)
            v, owner = recv.cls.lookup(name)
            if v is None:
                if name == "__dict__":
                    d = SymDict()
                    for k, val in recv.attrs.items():
                        self.natives.symdict_set(self, d, k, val, vc.CT)
                    return d
                if name == "__class__":
                    return recv.cls
                if name == "args" and recv.cls.is_exception():
                    return ()
                self.raise_exc(pc, AttributeError("'%s' object has no attribute '%s'" % (recv.cls.name, name)))
                return UNBOUND
            return self.bind(v, recv, recv.cls)
        if t is ClassVal:
            v, owner = recv.lookup(name)
            if v is None:
                if name == "__name__":
                    return recv.name
                self.raise_exc(pc, AttributeError("type object '%s' has no attribute '%s'" % (recv.name, name)))
                return UNBOUND
            return self.bind(v, None, recv)
        if t is ModuleVal:
            if name in recv.globals:
                return self.need_bound(recv.globals[name], name, fr, pc)
            self.raise_exc(pc, AttributeError("module '%s' has no attribute '%s'" % (recv.name, name)))
            return UNBOUND
        if t is U:
            if has_special(recv):
                outs = []
                for g, leaf in recv.alts:
                    apc = vc.c_andg(pc, g)
                    if vc.c_is_false(apc):
                        continue
                    outs.append((g, self.get_attr(leaf, name, fr, apc)))
                return vc.mk_union(outs, sweep=False)
            return MethodRef(recv, name)
        if t is Pair:
            return MethodRef(recv, name)
        if t in (StructStr, SymList, SymDict, Opaque):
            return MethodRef(recv, name)
        if recv is UNBOUND:
            raise Unsupported("attribute of unbound value")
        # real Python object
        try:
            v = getattr(recv, name)
        except Exception as e:  # noqa: BLE001
            self.raise_exc(pc, e)
            return UNBOUND
        if callable(v) and getattr(v, "__self__", None) is recv and not isinstance(recv, type(sys)):
            return MethodRef(recv, name)
        return v

    def bind(self, v, inst, cls):
        if isinstance(v, tuple) and len(v) == 2 and v[0] == "real":
            raw = v[1]
            if inst is None:
                return raw
            # method of a real base class (e.g. Exception.__str__)
            return MethodRef(inst, getattr(raw, "__name__", "?"))
        if isinstance(v, NativeHandler):
            if inst is None:
                return v
            h = v

            def bound(it, args, kwargs, pc, h=h, inst=inst):
                return h.fn(it, [inst] + list(args), kwargs, pc)

            return NativeHandler(bound, v.name)
        if isinstance(v, FuncVal):
            if v.kind == "classmethod":
                return BoundMethod(v, cls)
            if v.kind == "staticmethod":
                return v
            if v.kind == "property":
                if inst is None:
                    return v
                return self.call_function(v, [inst], {}, self.live(self.frames[-1], self.vc.CT))
            if inst is not None:
                return BoundMethod(v, inst)
        return v

    def ex_Subscript(self, node, fr, pc):
        recv = self.ev(node.value, fr, pc)
        key = self.ev(node.slice, fr, pc)
        return self.natives.get_item(self, recv, key, self.live(fr, pc))

    def ex_Slice(self, node, fr, pc):
        lo = None if node.lower is None else self.ev(node.lower, fr, pc)
        hi = None if node.upper is None else self.ev(node.upper, fr, pc)
        st = None if node.step is None else self.ev(node.step, fr, pc)
        return self.vc.lift(slice, [lo, hi, st], self.live(fr, pc), self.sink)

    def ex_Index(self, node, fr, pc):  # py<3.9 compatibility
        return self.ev(node.value, fr, pc)

    def ex_Starred(self, node, fr, pc):
        raise Unsupported("starred expression")

    def comp_iter(self, gens, idx, fr, pc, emit):
        vc = self.vc
        if idx == len(gens):
            emit(pc)
            return
        gen = gens[idx]
        if gen.is_async:
            raise Unsupported("async comprehension")
        it = self.ev(gen.iter, fr, pc)
        pc = self.live(fr, pc)
        for pres, v in self.iter_items(it, fr, pc):
            ipc = vc.c_and(pc, pres)
            if vc.c_is_false(ipc):
                continue
            self.assign(gen.target, v, fr, ipc)
            ok = ipc
            for cnd in gen.ifs:
                c = self.truth(self.ev(cnd, fr, ok), fr, ok)
                ok = vc.c_and(self.live(fr, ok), c)
            if vc.c_is_false(ok):
                continue
            self.comp_iter(gens, idx + 1, fr, vc.c_find(ok), emit)

    def comp_frame(self, fr):
        cfr = Frame(self, fr.module, fr, fr.func)
        # comprehension scope: shares exception scopes / dead-ness with the enclosing frame
        cfr.scopes = fr.scopes
        return cfr

    def ex_ListComp(self, node, fr, pc):
        vc = self.vc
        out = SymList([])
        cfr = _CompFrame(self, fr)

        def emit(ipc):
            v = self.ev(node.elt, cfr, ipc)
            ipc2 = self.live(fr, ipc)
            out.elems.append([self.rel(ipc2, pc), v])

        self.comp_iter(node.generators, 0, cfr, pc, emit)
        return out

    def ex_GeneratorExp(self, node, fr, pc):
        # the elements are computed here (see SymIter); consumption is one-shot
        return SymIter(self.ex_ListComp(node, fr, pc).elems)

    def ex_SetComp(self, node, fr, pc):
        lst = self.ex_ListComp(node, fr, pc)
        return self.natives.bi_set(self, [lst], {}, self.live(fr, pc))

    def ex_DictComp(self, node, fr, pc):
        out = SymDict()
        cfr = _CompFrame(self, fr)

        def emit(ipc):
            k = self.ev(node.key, cfr, ipc)
            v = self.ev(node.value, cfr, ipc)
            self.natives.symdict_set(self, out, k, v, self.rel(self.live(fr, ipc), pc))

        self.comp_iter(node.generators, 0, cfr, pc, emit)
        return out

    def rel(self, ipc, pc):
        """presence of an element produced under ipc inside an expression evaluated under pc:
        if ipc is pc itself the element is always there"""
        if ipc is pc:
            return self.vc.CT
        if pc is self.vc.CT:
            return ipc
        il, pl = self.m.find(ipc.l), self.m.find(pc.l)
        if il is pl and self.m.find(ipc.r) is self.m.find(pc.r):
            return self.vc.CT
        return ipc

    # -- truth / bool ---------------------------------------------------------------------------

    def truth(self, v, fr, pc):
        """Cond: bool(v)"""
        vc = self.vc
        t = type(v)
        if t is bool:
            return vc.CT if v else vc.CF
        if t is U or t is Pair:
            if has_special(v):
                if t is Pair:
                    raise Unsupported("truth of special pair")
                res = vc.CF
                for g, leaf in v.alts:
                    c = self.truth(leaf, fr, vc.c_andg(pc, g))
                    res = vc.c_or(res, vc.c_andg(c, g))
                return res
            b = vc.lift(bool, [v], pc, self.sink)
            return vc.cond_of(b)
        if t is SymList:
            res = vc.CF
            for p, _ in v.elems:
                res = vc.c_or(res, p)
            return res
        if t is SymDict:
            res = vc.CF
            for k in v.keys:
                res = vc.c_or(res, v.pres[k])
            return res
        if t is SymIter:
            return vc.CT  # an iterator object is always true
        if t is StructStr:
            return SS.nonempty(vc, v)
        if t is Opaque:
            if v.kind == "cond":
                return v.args[0]
            raise Unsupported("branch on opaque value %r" % (v,))
        if isinstance(v, Obj):
            b, _ = v.cls.lookup("__bool__")
            if b is None:
                b, _ = v.cls.lookup("__len__")
            if b is not None and isinstance(b, FuncVal):
                r = self.call_function(b, [v], {}, pc)
                return self.truth(r, fr, pc)
            return vc.CT
        if isinstance(v, (ClassVal, FuncVal, ModuleVal, BoundMethod, MethodRef, NativeHandler)):
            return vc.CT
        if v is UNBOUND:
            return vc.CF
        try:
            return vc.CT if v else vc.CF
        except Exception as e:  # noqa: BLE001
            self.raise_exc(pc, e)
            return vc.CF

    def bool_value(self, c):
        """Value (bool leaves) for a condition"""
        vc = self.vc
        m = self.m
        if c is vc.CT:
            return True
        if c is vc.CF:
            return False
        l = m.find(c.l)
        r = m.find(c.r)
        if l is r:
            if l is vc.T:
                return True
            if l is vc.F:
                return False
            return U([(l, True), (m.NOT(l), False)], True)
        pairs = [
            (m.AND(l, r), True),
            (m.AND(l, m.NOT(r)), Pair(True, False)),
            (m.AND(m.NOT(l), r), Pair(False, True)),
            (m.AND(m.NOT(l), m.NOT(r)), False),
        ]
        return vc.mk_union(pairs, sweep=False)

    # ------------------------------------------------------------------------------------------
    # calls
    # ------------------------------------------------------------------------------------------

    def eval_args(self, node, fr, pc, starred=None):
        """starred: pre-evaluated values for the starred arguments (by position in node.args)"""
        args = []
        for i, a in enumerate(node.args):
            if isinstance(a, ast.Starred):
                it = starred[i] if starred is not None and i in starred else self.ev(a.value, fr, pc)
                for pres, v in self.iter_items(it, fr, pc):
                    if pres is not self.vc.CT and not self.vc.c_is_true(pres):
                        if not self.vc.c_is_false(self.vc.c_and(pc, self.vc.c_not(pres))):
                            raise Unsupported("starred call argument with optional elements")
                    args.append(v)
            else:
                args.append(self.ev(a, fr, pc))
        kwargs = {}
        for k in node.keywords:
            if k.arg is None:
                raise Unsupported("**kwargs call")
            kwargs[k.arg] = self.ev(k.value, fr, pc)
        return args, kwargs

    def ex_Call(self, node, fr, pc, starred=None):
        f = node.func
        if starred is None and any(isinstance(a, ast.Starred) for a in node.args):
            # a starred argument that is a union of sequences: the call is made per alternative
            pre = {}
            split = None
            for i, a in enumerate(node.args):
                if isinstance(a, ast.Starred):
                    v = self.ev(a.value, fr, pc)
                    pre[i] = v
                    if type(v) is U and split is None:
                        split = i
            if split is None:
                return self.ex_Call(node, fr, self.live(fr, pc), starred=pre)
            outs = []
            for g, leaf in pre[split].alts:
                apc = self.live(fr, self.vc.c_andg(pc, g))
                if self.vc.c_is_false(apc):
                    continue
                p2 = dict(pre)
                p2[split] = leaf
                outs.append((g, self.ex_Call(node, fr, apc, starred=p2)))
            return self.vc.mk_union(outs, sweep=False)
        if isinstance(f, ast.Attribute):
            recv = self.ev(f.value, fr, pc)
            args, kwargs = self.eval_args(node, fr, pc, starred)
            return self.call_method(recv, f.attr, args, kwargs, fr, self.live(fr, pc))
        fv = self.ev(f, fr, pc)
        args, kwargs = self.eval_args(node, fr, pc, starred)
        return self.call(fv, args, kwargs, self.live(fr, pc))

    def call_method(self, recv, name, args, kwargs, fr, pc):
        vc = self.vc
        t = type(recv)
        if t is Obj or t is ClassVal or t is ModuleVal:
            f = self.get_attr(recv, name, fr, pc)
            return self.call(f, args, kwargs, self.live(fr, pc))
        if t is U and has_special(recv):
            outs = []
            for g, leaf in recv.alts:
                apc = vc.c_andg(pc, g)
                if vc.c_is_false(apc):
                    continue
                outs.append((g, self.call_method(leaf, name, args, kwargs, fr, apc)))
            return vc.mk_union(outs, sweep=False)
        if isinstance(recv, type(sys)) or isinstance(recv, type) or t is FuncVal or t is BoundMethod:
            f = self.get_attr(recv, name, fr, pc)
            return self.call(f, args, kwargs, self.live(fr, pc))
        return self.natives.call_native_method(self, recv, name, args, kwargs, pc)

    def call(self, f, args, kwargs, pc):
        vc = self.vc
        t = type(f)
        if t is FuncVal:
            return self.call_function(f, args, kwargs, pc)
        if t is BoundMethod:
            return self.call_function(f.func, [f.self] + list(args), kwargs, pc)
        if t is ClassVal:
            return self.instantiate(f, args, kwargs, pc)
        if t is NativeHandler:
            return f.fn(self, args, kwargs, pc)
        if t is MethodRef:
            return self.natives.call_native_method(self, f.recv, f.name, args, kwargs, pc)
        if t is U:
            outs = []
            for g, leaf in f.alts:
                apc = vc.c_andg(pc, g)
                if vc.c_is_false(apc):
                    continue
                outs.append((g, self.call(leaf, args, kwargs, apc)))
            return vc.mk_union(outs, sweep=False)
        if f is UNBOUND:
            return UNBOUND
        if isinstance(f, Obj):
            c, _ = f.cls.lookup("__call__")
            if isinstance(c, FuncVal):
                return self.call_function(c, [f] + list(args), kwargs, pc)
        if callable(f):
            return self.natives.call_real(self, f, args, kwargs, pc)
        self.raise_exc(pc, TypeError("object is not callable: %r" % (f,)))
        return UNBOUND

    def instantiate(self, cls, args, kwargs, pc):
        obj = Obj(cls)
        init, owner = cls.lookup("__init__")
        if isinstance(init, FuncVal):
            self.call_function(init, [obj] + list(args), kwargs, pc)
        elif cls.is_exception():
            if all(deep_concrete(a) for a in args):
                obj.attrs["args"] = tuple(args)
            else:
                obj.attrs["args"] = SymList([[self.vc.CT, a] for a in args], is_tuple=True)
        elif args or kwargs:
            self.raise_exc(pc, TypeError("%s() takes no arguments" % cls.name))
        return obj

    def call_function(self, fv, args, kwargs, pc):
        vc = self.vc
        node = fv.node
        a = node.args
        fr = Frame(self, fv.module, fv.closure, fv)
        # record what was encoded
        key = (fv.module.name, fv.qualname)
        if key not in self.functions_encoded:
            self.functions_encoded[key] = (node.lineno, getattr(node, "end_lineno", node.lineno))
        params = [p.arg for p in getattr(a, "posonlyargs", [])] + [p.arg for p in a.args]
        args = list(args)
        kwargs = dict(kwargs)
        if len(args) > len(params) and a.vararg is None:
            self.raise_exc(pc, TypeError("%s() takes %d positional arguments but %d were given" % (fv.name, len(params), len(args))))
            return UNBOUND
        nd = len(fv.defaults)
        for i, p in enumerate(params):
            if i < len(args):
                if p in kwargs:
                    self.raise_exc(pc, TypeError("multiple values for argument '%s'" % p))
                    return UNBOUND
                fr.locals[p] = args[i]
            elif p in kwargs:
                fr.locals[p] = kwargs.pop(p)
            elif i >= len(params) - nd:
                fr.locals[p] = fv.defaults[i - (len(params) - nd)]
            else:
                self.raise_exc(pc, TypeError("%s() missing required argument '%s'" % (fv.name, p)))
                return UNBOUND
        if a.vararg is not None:
            extra = args[len(params):]
            fr.locals[a.vararg.arg] = tuple(extra) if all(deep_concrete(x) for x in extra) else SymList([[vc.CT, x] for x in extra], is_tuple=True)
        for p, d in zip(a.kwonlyargs, fv.kwdefaults):
            if p.arg in kwargs:
                fr.locals[p.arg] = kwargs.pop(p.arg)
            elif d is not None:
                fr.locals[p.arg] = d
            else:
                self.raise_exc(pc, TypeError("missing keyword-only argument '%s'" % p.arg))
                return UNBOUND
        if a.kwarg is not None:
            d = SymDict()
            for k, v in kwargs.items():
                self.natives.symdict_set(self, d, k, v, vc.CT)
            fr.locals[a.kwarg.arg] = d
        elif kwargs:
            self.raise_exc(pc, TypeError("%s() got an unexpected keyword argument '%s'" % (fv.name, list(kwargs)[0])))
            return UNBOUND
        if len(self.frames) > 200:
            raise Unsupported("call depth > 200")
        self.frames.append(fr)
        try:
            if isinstance(node, ast.Lambda):
                v = self.ev(node.body, fr, pc)
                lpc = self.live(fr, pc)
                fr.ret_val = v
                fr.ret_c = lpc
            else:
                self.exec_block(node.body, fr, pc)
        finally:
            self.frames.pop()
        for c, e in fr.scopes[0]:
            self.raise_exc(c, e)
        if fr.ret_c is vc.CF:
            return None
        if fr.ret_c is pc:
            return fr.ret_val
        return vc.select(fr.ret_c, fr.ret_val, None)


class _CompFrame(Frame):
    """comprehension scope: own loop variables, everything else shared with the enclosing frame"""

    def __init__(self, interp, fr):
        Frame.__init__(self, interp, fr.module, fr, fr.func)
        self.scopes = fr.scopes
        self.outer = fr

    # dead-ness is the enclosing frame's
    @property
    def dead(self):
        return self.outer.dead

    @dead.setter
    def dead(self, v):
        if hasattr(self, "outer"):
            self.outer.dead = v

    @property
    def not_dead(self):
        return self.outer.not_dead

    @not_dead.setter
    def not_dead(self, v):
        if hasattr(self, "outer"):
            self.outer.not_dead = v

    @property
    def ret_c(self):
        return self.outer.ret_c

    @ret_c.setter
    def ret_c(self, v):
        if hasattr(self, "outer"):
            self.outer.ret_c = v

    @property
    def loops(self):
        return self.outer.loops

    @loops.setter
    def loops(self, v):
        pass
