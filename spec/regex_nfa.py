"""
Small regular-expression engine (Thompson NFA, set-of-states simulation) for the `pattern`
keywords of the FIRST JSON schemas.  Supported syntax - all that the four vectorString patterns
use: literals, '.', escapes (\\x), character classes [abc] / [a-z] / [.] / [^...], groups with
alternation, the postfix operators ? * +, and the anchors ^ $ (a pattern is matched with search
semantics like JSON Schema prescribes; with both anchors that is a full match).
Anything else raises ValueError (fail closed).
"""


class NFA(object):
    def __init__(self):
        self.eps = []  # state -> set of states
        self.trans = []  # state -> list of (predicate, target)
        self.start = None
        self.accept = None

    def new(self):
        self.eps.append(set())
        self.trans.append([])
        return len(self.eps) - 1


class _Pred(object):
    def __init__(self, chars=None, negate=False, anychar=False):
        self.chars = chars
        self.negate = negate
        self.anychar = anychar

    def __call__(self, c):
        if self.anychar:
            return c != "\n"
        return (c in self.chars) != self.negate


def parse(pattern):
    pos = [0]
    n = NFA()
    anchored_start = False
    anchored_end = False
    p = pattern
    if p.startswith("^"):
        anchored_start = True
        p = p[1:]
    if p.endswith("$") and not p.endswith("\\$"):
        anchored_end = True
        p = p[:-1]

    def peek():
        return p[pos[0]] if pos[0] < len(p) else None

    def eat():
        c = p[pos[0]]
        pos[0] += 1
        return c

    def alt():
        s, e = seq()
        frags = [(s, e)]
        while peek() == "|":
            eat()
            frags.append(seq())
        if len(frags) == 1:
            return frags[0]
        s0, e0 = n.new(), n.new()
        for a, b in frags:
            n.eps[s0].add(a)
            n.eps[b].add(e0)
        return s0, e0

    def seq():
        s = n.new()
        cur = s
        while peek() is not None and peek() not in "|)":
            a, b = rep()
            n.eps[cur].add(a)
            cur = b
        return s, cur

    def rep():
        start = pos[0]
        a, b = atom()
        end_atom = pos[0]
        if peek() == "{":
            # counted repetition: re-parse the atom text the required number of times
            j = p.index("}", pos[0])
            spec = p[pos[0] + 1:j]
            pos[0] = j + 1
            if "," in spec:
                lo, hi = spec.split(",")
                lo = int(lo)
                hi = int(hi) if hi.strip() else None
            else:
                lo = hi = int(spec)
            atom_text = p[start:end_atom]

            def one():
                save = pos[0]
                pos[0] = start
                x = atom()
                pos[0] = save
                return x

            s0 = n.new()
            cur = s0
            for _ in range(lo):
                x, y = one()
                n.eps[cur].add(x)
                cur = y
            if hi is None:
                x, y = one()
                n.eps[cur].add(x)
                n.eps[y].add(x)
                e = n.new()
                n.eps[cur].add(e)
                n.eps[y].add(e)
                cur = e
            else:
                e = n.new()
                n.eps[cur].add(e)
                for _ in range(hi - lo):
                    x, y = one()
                    n.eps[cur].add(x)
                    cur = y
                    n.eps[cur].add(e)
                cur = e
            a, b = s0, cur
        while peek() is not None and peek() in "?*+":
            op = eat()
            s, e = n.new(), n.new()
            n.eps[s].add(a)
            n.eps[b].add(e)
            if op in "?*":
                n.eps[s].add(e)
            if op in "*+":
                n.eps[b].add(a)
            a, b = s, e
        return a, b

    def atom():
        c = eat()
        if c == "(":
            if p[pos[0]:pos[0] + 2] == "?:":
                pos[0] += 2
            elif peek() == "?":
                raise ValueError("group flags not supported")
            a, b = alt()
            if peek() != ")":
                raise ValueError("unbalanced parenthesis")
            eat()
            return a, b
        if c == "[":
            neg = False
            if peek() == "^":
                neg = True
                eat()
            chars = set()
            first = True
            while True:
                d = eat()
                if d == "]" and not first:
                    break
                first = False
                if d == "\\":
                    d = eat()
                    if d in "dwsDWSb":
                        raise ValueError("class escapes not supported")
                if peek() == "-" and pos[0] + 1 < len(p) and p[pos[0] + 1] != "]":
                    eat()
                    hi = eat()
                    for k in range(ord(d), ord(hi) + 1):
                        chars.add(chr(k))
                else:
                    chars.add(d)
            pred = _Pred(chars=chars, negate=neg)
        elif c == ".":
            pred = _Pred(anychar=True)
        elif c == "\\":
            d = eat()
            if d == "d":
                pred = _Pred(chars=set("0123456789"))
            elif d in "wsDWSbB":
                raise ValueError("escape \\%s not supported" % d)
            else:
                pred = _Pred(chars={d})
        elif c in "^$":
            raise ValueError("inner anchors not supported")
        else:
            pred = _Pred(chars={c})
        s, e = n.new(), n.new()
        n.trans[s].append((pred, e))
        return s, e

    a, b = alt()
    if pos[0] != len(p):
        raise ValueError("trailing pattern text at %d" % pos[0])
    if not anchored_start:
        s = n.new()
        n.trans[s].append((_Pred(anychar=True), s))
        nl = n.new()
        n.trans[s].append((_Pred(chars={"\n"}), s))
        n.eps[s].add(a)
        a = s
    if not anchored_end:
        e = n.new()
        n.eps[b].add(e)
        n.trans[e].append((_Pred(anychar=True), e))
        n.trans[e].append((_Pred(chars={"\n"}), e))
        b = e
    n.start, n.accept = a, b
    return n


def closure(n, states):
    stack = list(states)
    seen = set(states)
    while stack:
        s = stack.pop()
        for t in n.eps[s]:
            if t not in seen:
                seen.add(t)
                stack.append(t)
    return frozenset(seen)


def initial(n):
    return closure(n, {n.start})


def step(n, states, text):
    cur = states
    for c in text:
        nxt = set()
        for s in cur:
            for pred, t in n.trans[s]:
                if pred(c):
                    nxt.add(t)
        cur = closure(n, nxt)
        if not cur:
            return cur
    return cur


def accepts(n, states):
    return n.accept in states


def fullmatch(pattern, text):
    n = parse(pattern)
    return accepts(n, step(n, initial(n), text))
