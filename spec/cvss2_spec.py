"""
CVSS v2.0 scoring, typed from the "Complete Guide to the Common Vulnerability Scoring System
Version 2.0", section 3.2, in exact rational arithmetic.  Nothing is imported from /repo.

m: mapping metric -> value as written; absent -> None.  Returns (base, temporal, environmental)
with None for an undefined temporal / environmental score (every metric of the group absent or ND).
"""

from fractions import Fraction as F

AV = {"L": F("0.395"), "A": F("0.646"), "N": F("1.0")}
AC = {"H": F("0.35"), "M": F("0.61"), "L": F("0.71")}
AU = {"M": F("0.45"), "S": F("0.56"), "N": F("0.704")}
CIA = {"N": F("0"), "P": F("0.275"), "C": F("0.660")}
E = {"U": F("0.85"), "POC": F("0.9"), "F": F("0.95"), "H": F("1"), "ND": F("1")}
RL = {"OF": F("0.87"), "TF": F("0.90"), "W": F("0.95"), "U": F("1"), "ND": F("1")}
RC = {"UC": F("0.90"), "UR": F("0.95"), "C": F("1"), "ND": F("1")}
CDP = {"N": F("0"), "L": F("0.1"), "LM": F("0.3"), "MH": F("0.4"), "H": F("0.5"), "ND": F("0")}
TD = {"N": F("0"), "L": F("0.25"), "M": F("0.75"), "H": F("1"), "ND": F("1")}
REQ = {"L": F("0.5"), "M": F("1"), "H": F("1.51"), "ND": F("1")}


def round1(x):
    """round to one decimal, ties away from zero (x is never negative where it matters)"""
    if x >= 0:
        return F((x * 10 + F(1, 2)) // 1, 10)
    return -F((-x * 10 + F(1, 2)) // 1, 10)


def opt(m, name):
    v = m.get(name)
    if v is None:
        return "ND"
    return v


def f_impact(impact):
    if impact == 0:
        return F(0)
    return F("1.176")


def scores(m):
    expl = F(20) * AV[m["AV"]] * AC[m["AC"]] * AU[m["Au"]]
    impact = F("10.41") * (1 - (1 - CIA[m["C"]]) * (1 - CIA[m["I"]]) * (1 - CIA[m["A"]]))
    base = max(F(0), round1((F("0.6") * impact + F("0.4") * expl - F("1.5")) * f_impact(impact)))

    tfac = E[opt(m, "E")] * RL[opt(m, "RL")] * RC[opt(m, "RC")]
    if opt(m, "E") == "ND" and opt(m, "RL") == "ND" and opt(m, "RC") == "ND":
        temporal = None
    else:
        temporal = max(F(0), round1(base * tfac))

    if (
        opt(m, "CDP") == "ND"
        and opt(m, "TD") == "ND"
        and opt(m, "CR") == "ND"
        and opt(m, "IR") == "ND"
        and opt(m, "AR") == "ND"
    ):
        env = None
    else:
        adj_impact = min(
            F(10),
            F("10.41")
            * (
                1
                - (1 - CIA[m["C"]] * REQ[opt(m, "CR")])
                * (1 - CIA[m["I"]] * REQ[opt(m, "IR")])
                * (1 - CIA[m["A"]] * REQ[opt(m, "AR")])
            ),
        )
        adj_base = round1((F("0.6") * adj_impact + F("0.4") * expl - F("1.5")) * f_impact(adj_impact))
        adj_temporal = round1(adj_base * tfac)
        env = max(F(0), round1((adj_temporal + (10 - adj_temporal) * CDP[opt(m, "CDP")]) * TD[opt(m, "TD")]))
    return (base, temporal, env)
