"""
Concrete JSON Schema validation for the keywords the four FIRST CVSS schemas use; exact decimal
arithmetic for minimum / maximum / multipleOf.  Used by the replays (and, for scalar leaves, by
the symbolic evaluator).  Unknown keywords raise ValueError (fail closed).
"""
from decimal import Decimal

from . import regex_nfa as R

IGNORED = {"description", "default", "title", "license", "$schema", "id", "$id", "definitions", "examples", "$comment"}


def resolve(root, ref):
    if not ref.startswith("#/"):
        raise ValueError("$ref %r" % ref)
    node = root
    for part in ref[2:].split("/"):
        node = node[part]
    return node


def valid(root, schema, v):
    for k, x in schema.items():
        if k in IGNORED:
            continue
        if k == "$ref":
            if not valid(root, resolve(root, x), v):
                return False
        elif k == "type":
            ts = x if isinstance(x, list) else [x]
            ok = False
            for t in ts:
                if t == "string" and isinstance(v, str):
                    ok = True
                elif t == "number" and isinstance(v, (int, float)) and not isinstance(v, bool) and v == v and v not in (float("inf"), float("-inf")):
                    ok = True
                elif t == "integer" and isinstance(v, int) and not isinstance(v, bool):
                    ok = True
                elif t == "boolean" and isinstance(v, bool):
                    ok = True
                elif t == "null" and v is None:
                    ok = True
                elif t == "object" and isinstance(v, dict):
                    ok = True
                elif t == "array" and isinstance(v, list):
                    ok = True
            if not ok:
                return False
        elif k == "enum":
            if not any(type(v) is type(e) and v == e for e in x):
                return False
        elif k == "const":
            if not (type(v) is type(x) and v == x):
                return False
        elif k in ("minimum", "maximum", "multipleOf"):
            if isinstance(v, (int, float)) and not isinstance(v, bool):
                if v != v or v in (float("inf"), float("-inf")):
                    return False
                dv, dx = Decimal(repr(v)), Decimal(repr(x))
                if k == "minimum" and dv < dx:
                    return False
                if k == "maximum" and dv > dx:
                    return False
                if k == "multipleOf" and (dv % dx) != 0:
                    return False
        elif k == "pattern":
            if isinstance(v, str):
                n = R.parse(x)
                if not R.accepts(n, R.step(n, R.initial(n), v)):
                    return False
        elif k == "required":
            if isinstance(v, dict) and any(key not in v for key in x):
                return False
        elif k == "properties":
            if isinstance(v, dict):
                for key, sub in x.items():
                    if key in v and not valid(root, sub, v[key]):
                        return False
        elif k == "additionalProperties":
            if x is False and isinstance(v, dict):
                if any(key not in schema.get("properties", {}) for key in v):
                    return False
            elif x is not True and x is not False:
                raise ValueError("additionalProperties schema")
        elif k == "allOf":
            if not all(valid(root, s, v) for s in x):
                return False
        elif k == "anyOf":
            if not any(valid(root, s, v) for s in x):
                return False
        else:
            raise ValueError("JSON Schema keyword %r" % k)
    return True


def failing_parts(root, data, prefix):
    """part keys (same naming as harness/jsonprops.py) of the top-level constraints that fail"""
    out = []
    for key in root.get("required", []):
        if key not in data:
            out.append("%s.%s.missing" % (prefix, key))
    for key, sub in root.get("properties", {}).items():
        if key in data and not valid(root, sub, data[key]):
            if isinstance(sub.get("pattern"), str) and isinstance(data[key], str) and valid(root, {k: v for k, v in sub.items() if k != "pattern"}, data[key]):
                out.append("%s.%s.pattern" % (prefix, key))
            else:
                out.append("%s.%s=%s" % (prefix, key, data[key]))
    for i, sub in enumerate(root.get("allOf", [])):
        if not valid(root, sub, data):
            out.append("%s.allOf[%d]" % (prefix, i))
    if "anyOf" in root and not valid(root, {"anyOf": root["anyOf"]}, data):
        out.append("%s.anyOf[0]" % prefix)
    if root.get("additionalProperties") is False:
        for key in data:
            if key not in root.get("properties", {}):
                out.append("%s.additional.%s" % (prefix, key))
    return out
