"""
Vector grammars of CVSS v2.0, v3.0/v3.1 and v4.0, typed from the published standards
(CVSS v2 Complete Guide section 2.4; CVSS v3.1 Specification section 6, table 15; CVSS v4.0
Specification section 7, table 23).  Nothing here is read from /repo.

Per version: prefixes, metrics in the standard's vector order with their legal values in the
standard's listing order, the mandatory (base) metrics, the Not-Defined spelling and the groups.
"""

V2 = {
    "name": "2.0",
    "prefixes": [""],
    "nd": "ND",
    "metrics": [
        ("AV", ["L", "A", "N"]),
        ("AC", ["H", "M", "L"]),
        ("Au", ["M", "S", "N"]),
        ("C", ["N", "P", "C"]),
        ("I", ["N", "P", "C"]),
        ("A", ["N", "P", "C"]),
        ("E", ["U", "POC", "F", "H", "ND"]),
        ("RL", ["OF", "TF", "W", "U", "ND"]),
        ("RC", ["UC", "UR", "C", "ND"]),
        ("CDP", ["N", "L", "LM", "MH", "H", "ND"]),
        ("TD", ["N", "L", "M", "H", "ND"]),
        ("CR", ["L", "M", "H", "ND"]),
        ("IR", ["L", "M", "H", "ND"]),
        ("AR", ["L", "M", "H", "ND"]),
    ],
    "mandatory": ["AV", "AC", "Au", "C", "I", "A"],
    "temporal": ["E", "RL", "RC"],
    "environmental": ["CDP", "TD", "CR", "IR", "AR"],
}

V3 = {
    "name": "3.x",
    "prefixes": ["CVSS:3.0", "CVSS:3.1"],
    "nd": "X",
    "metrics": [
        ("AV", ["N", "A", "L", "P"]),
        ("AC", ["L", "H"]),
        ("PR", ["N", "L", "H"]),
        ("UI", ["N", "R"]),
        ("S", ["U", "C"]),
        ("C", ["H", "L", "N"]),
        ("I", ["H", "L", "N"]),
        ("A", ["H", "L", "N"]),
        ("E", ["X", "H", "F", "P", "U"]),
        ("RL", ["X", "U", "W", "T", "O"]),
        ("RC", ["X", "C", "R", "U"]),
        ("CR", ["X", "H", "M", "L"]),
        ("IR", ["X", "H", "M", "L"]),
        ("AR", ["X", "H", "M", "L"]),
        ("MAV", ["X", "N", "A", "L", "P"]),
        ("MAC", ["X", "L", "H"]),
        ("MPR", ["X", "N", "L", "H"]),
        ("MUI", ["X", "N", "R"]),
        ("MS", ["X", "U", "C"]),
        ("MC", ["X", "H", "L", "N"]),
        ("MI", ["X", "H", "L", "N"]),
        ("MA", ["X", "H", "L", "N"]),
    ],
    "mandatory": ["AV", "AC", "PR", "UI", "S", "C", "I", "A"],
    "temporal": ["E", "RL", "RC"],
    "environmental": ["CR", "IR", "AR", "MAV", "MAC", "MPR", "MUI", "MS", "MC", "MI", "MA"],
}

V4 = {
    "name": "4.0",
    "prefixes": ["CVSS:4.0"],
    "nd": "X",
    # order mandated by the v4.0 specification: Base, Threat, Environmental, Supplemental
    "metrics": [
        ("AV", ["N", "A", "L", "P"]),
        ("AC", ["L", "H"]),
        ("AT", ["N", "P"]),
        ("PR", ["N", "L", "H"]),
        ("UI", ["N", "P", "A"]),
        ("VC", ["H", "L", "N"]),
        ("VI", ["H", "L", "N"]),
        ("VA", ["H", "L", "N"]),
        ("SC", ["H", "L", "N"]),
        ("SI", ["H", "L", "N"]),
        ("SA", ["H", "L", "N"]),
        ("E", ["X", "A", "P", "U"]),
        ("CR", ["X", "H", "M", "L"]),
        ("IR", ["X", "H", "M", "L"]),
        ("AR", ["X", "H", "M", "L"]),
        ("MAV", ["X", "N", "A", "L", "P"]),
        ("MAC", ["X", "L", "H"]),
        ("MAT", ["X", "N", "P"]),
        ("MPR", ["X", "N", "L", "H"]),
        ("MUI", ["X", "N", "P", "A"]),
        ("MVC", ["X", "H", "L", "N"]),
        ("MVI", ["X", "H", "L", "N"]),
        ("MVA", ["X", "H", "L", "N"]),
        ("MSC", ["X", "H", "L", "N"]),
        ("MSI", ["X", "S", "H", "L", "N"]),
        ("MSA", ["X", "S", "H", "L", "N"]),
        ("S", ["X", "N", "P"]),
        ("AU", ["X", "N", "Y"]),
        ("R", ["X", "A", "U", "I"]),
        ("V", ["X", "D", "C"]),
        ("RE", ["X", "L", "M", "H"]),
        ("U", ["X", "Clear", "Green", "Amber", "Red"]),
    ],
    "mandatory": ["AV", "AC", "AT", "PR", "UI", "VC", "VI", "VA", "SC", "SI", "SA"],
    "threat": ["E"],
    "environmental": ["CR", "IR", "AR", "MAV", "MAC", "MAT", "MPR", "MUI", "MVC", "MVI", "MVA", "MSC", "MSI", "MSA"],
    "supplemental": ["S", "AU", "R", "V", "RE", "U"],
}

GRAMMARS = {2: V2, 3: V3, 4: V4}


def metric_names(g):
    return [m for m, _ in g["metrics"]]


def legal(g, metric):
    for m, vals in g["metrics"]:
        if m == metric:
            return vals
    raise KeyError(metric)


def is_valid(version, s):
    """Reference acceptance predicate of property C04 for plain Python strings."""
    g = GRAMMARS[version]
    if not isinstance(s, str):
        return False
    parts = s.split("/")
    if version == 2:
        fields = parts
    else:
        if parts[0] not in g["prefixes"] or len(parts) < 2:
            return False
        fields = parts[1:]
    seen = {}
    table = dict(g["metrics"])
    for f in fields:
        kv = f.split(":")
        if len(kv) != 2:
            return False
        k, v = kv
        if k not in table or v not in table[k] or k in seen:
            return False
        seen[k] = v
    return all(m in seen for m in g["mandatory"])


def parse(version, s):
    """metric->value map of a valid vector (plus minor version for v3)"""
    assert is_valid(version, s), s
    parts = s.split("/")
    minor = None
    if version != 2:
        minor = parts[0].split(":")[1].split(".")[1]
        parts = parts[1:]
    return dict(p.split(":") for p in parts), minor
