"""
JSON field names and value names per metric, typed from the FIRST JSON schemas (enum lists of
cvss-v2.0.json, cvss-v3.x.json, cvss-v4.0.json) and the standards' metric value names.
Independent of /repo.

For each version: METRIC -> (accepted JSON keys, {value -> accepted names}).
Where the library's historic spelling differs from the schema's only in wording (a name that
still unambiguously denotes the same value) both are accepted here, because C11 is about
*faithfulness* (the right metric's right value); conformance to the schema's exact enum strings
is C10's subject.  The aliases are listed explicitly below.
"""

ND = "NOT_DEFINED"

V2 = {
    "AV": (["accessVector"], {"L": ["LOCAL"], "A": ["ADJACENT_NETWORK"], "N": ["NETWORK"]}),
    "AC": (["accessComplexity"], {"H": ["HIGH"], "M": ["MEDIUM"], "L": ["LOW"]}),
    "Au": (["authentication"], {"M": ["MULTIPLE"], "S": ["SINGLE"], "N": ["NONE"]}),
    "C": (["confidentialityImpact"], {"N": ["NONE"], "P": ["PARTIAL"], "C": ["COMPLETE"]}),
    "I": (["integrityImpact"], {"N": ["NONE"], "P": ["PARTIAL"], "C": ["COMPLETE"]}),
    "A": (["availabilityImpact"], {"N": ["NONE"], "P": ["PARTIAL"], "C": ["COMPLETE"]}),
    "E": (["exploitability"], {"U": ["UNPROVEN"], "POC": ["PROOF_OF_CONCEPT"], "F": ["FUNCTIONAL"], "H": ["HIGH"], "ND": [ND]}),
    "RL": (["remediationLevel"], {"OF": ["OFFICIAL_FIX"], "TF": ["TEMPORARY_FIX"], "W": ["WORKAROUND"], "U": ["UNAVAILABLE"], "ND": [ND]}),
    "RC": (["reportConfidence"], {"UC": ["UNCONFIRMED"], "UR": ["UNCORROBORATED"], "C": ["CONFIRMED"], "ND": [ND]}),
    "CDP": (["collateralDamagePotential"], {"N": ["NONE"], "L": ["LOW"], "LM": ["LOW_MEDIUM"], "MH": ["MEDIUM_HIGH"], "H": ["HIGH"], "ND": [ND]}),
    "TD": (["targetDistribution"], {"N": ["NONE"], "L": ["LOW"], "M": ["MEDIUM"], "H": ["HIGH"], "ND": [ND]}),
    "CR": (["confidentialityRequirement"], {"L": ["LOW"], "M": ["MEDIUM"], "H": ["HIGH"], "ND": [ND]}),
    "IR": (["integrityRequirement"], {"L": ["LOW"], "M": ["MEDIUM"], "H": ["HIGH"], "ND": [ND]}),
    "AR": (["availabilityRequirement"], {"L": ["LOW"], "M": ["MEDIUM"], "H": ["HIGH"], "ND": [ND]}),
}

_AV3 = {"N": ["NETWORK"], "A": ["ADJACENT_NETWORK"], "L": ["LOCAL"], "P": ["PHYSICAL"]}
_LH = {"L": ["LOW"], "H": ["HIGH"]}
_NLH = {"N": ["NONE"], "L": ["LOW"], "H": ["HIGH"]}
_NR = {"N": ["NONE"], "R": ["REQUIRED"]}
_UC = {"U": ["UNCHANGED"], "C": ["CHANGED"]}
_REQ = {"X": [ND], "H": ["HIGH"], "M": ["MEDIUM"], "L": ["LOW"]}


def _x(d):
    r = dict(d)
    r["X"] = [ND]
    return r


V3 = {
    "AV": (["attackVector"], _AV3),
    "AC": (["attackComplexity"], _LH),
    "PR": (["privilegesRequired"], _NLH),
    "UI": (["userInteraction"], _NR),
    "S": (["scope"], _UC),
    "C": (["confidentialityImpact"], _NLH),
    "I": (["integrityImpact"], _NLH),
    "A": (["availabilityImpact"], _NLH),
    "E": (["exploitCodeMaturity"], {"X": [ND], "H": ["HIGH"], "F": ["FUNCTIONAL"], "P": ["PROOF_OF_CONCEPT"], "U": ["UNPROVEN"]}),
    "RL": (["remediationLevel"], {"X": [ND], "U": ["UNAVAILABLE"], "W": ["WORKAROUND"], "T": ["TEMPORARY_FIX"], "O": ["OFFICIAL_FIX"]}),
    "RC": (["reportConfidence"], {"X": [ND], "C": ["CONFIRMED"], "R": ["REASONABLE"], "U": ["UNKNOWN"]}),
    "CR": (["confidentialityRequirement"], _REQ),
    "IR": (["integrityRequirement"], _REQ),
    "AR": (["availabilityRequirement"], _REQ),
    "MAV": (["modifiedAttackVector"], _x(_AV3)),
    "MAC": (["modifiedAttackComplexity"], _x(_LH)),
    "MPR": (["modifiedPrivilegesRequired"], _x(_NLH)),
    "MUI": (["modifiedUserInteraction"], _x(_NR)),
    "MS": (["modifiedScope"], _x(_UC)),
    "MC": (["modifiedConfidentialityImpact"], _x(_NLH)),
    "MI": (["modifiedIntegrityImpact"], _x(_NLH)),
    "MA": (["modifiedAvailabilityImpact"], _x(_NLH)),
}

# v4.0: first key = the official schema's property name; further keys = the descriptive names the
# library has always used (the v4 schema does not forbid additional properties).  Value aliases:
# ADJACENT_NETWORK for ADJACENT, POC for PROOF_OF_CONCEPT, INRECOVERABLE for IRRECOVERABLE.
_AV4 = {"N": ["NETWORK"], "A": ["ADJACENT", "ADJACENT_NETWORK"], "L": ["LOCAL"], "P": ["PHYSICAL"]}
_NP = {"N": ["NONE"], "P": ["PRESENT"]}
_UI4 = {"N": ["NONE"], "P": ["PASSIVE"], "A": ["ACTIVE"]}
_HLN = {"H": ["HIGH"], "L": ["LOW"], "N": ["NONE"]}
_MSUB = {"X": [ND], "H": ["HIGH"], "L": ["LOW"], "N": ["NONE", "NEGLIGIBLE"]}
_MSUBS = {"X": [ND], "S": ["SAFETY"], "H": ["HIGH"], "L": ["LOW"], "N": ["NONE", "NEGLIGIBLE"]}

V4 = {
    "AV": (["attackVector"], _AV4),
    "AC": (["attackComplexity"], _LH),
    "AT": (["attackRequirements", "attackRequirement"], _NP),
    "PR": (["privilegesRequired"], _NLH),
    "UI": (["userInteraction"], _UI4),
    "VC": (["vulnConfidentialityImpact", "vulnerableSystemImpactConfidentiality"], _HLN),
    "VI": (["vulnIntegrityImpact", "vulnerableSystemImpactIntegrity"], _HLN),
    "VA": (["vulnAvailabilityImpact", "vulnerableSystemImpactAvailability"], _HLN),
    "SC": (["subConfidentialityImpact", "subsequentSystemImpactConfidentiality"], _HLN),
    "SI": (["subIntegrityImpact", "subsequentSystemImpactIntegrity"], _HLN),
    "SA": (["subAvailabilityImpact", "subsequentSystemImpactAvailability"], _HLN),
    "E": (["exploitMaturity"], {"X": [ND], "A": ["ATTACKED"], "P": ["PROOF_OF_CONCEPT", "POC"], "U": ["UNREPORTED"]}),
    "CR": (["confidentialityRequirement", "confidentialityRequirements"], _REQ),
    "IR": (["integrityRequirement", "integrityRequirements"], _REQ),
    "AR": (["availabilityRequirement", "availabilityRequirements"], _REQ),
    "MAV": (["modifiedAttackVector"], _x(_AV4)),
    "MAC": (["modifiedAttackComplexity"], _x(_LH)),
    "MAT": (["modifiedAttackRequirements", "modifiedAttackRequirement"], _x(_NP)),
    "MPR": (["modifiedPrivilegesRequired"], _x(_NLH)),
    "MUI": (["modifiedUserInteraction"], _x(_UI4)),
    "MVC": (["modifiedVulnConfidentialityImpact", "modifiedVulnerableSystemImpactConfidentiality"], _x(_HLN)),
    "MVI": (["modifiedVulnIntegrityImpact", "modifiedVulnerableSystemImpactIntegrity"], _x(_HLN)),
    "MVA": (["modifiedVulnAvailabilityImpact", "modifiedVulnerableSystemImpactAvailability"], _x(_HLN)),
    "MSC": (["modifiedSubConfidentialityImpact", "modifiedSubsequentSystemImpactConfidentiality"], _MSUB),
    "MSI": (["modifiedSubIntegrityImpact", "modifiedSubsequentSystemImpactIntegrity"], _MSUBS),
    "MSA": (["modifiedSubAvailabilityImpact", "modifiedSubsequentSystemImpactAvailability"], _MSUBS),
    "S": (["Safety", "safety"], {"X": [ND], "N": ["NEGLIGIBLE"], "P": ["PRESENT"]}),
    "AU": (["Automatable", "automatable"], {"X": [ND], "N": ["NO"], "Y": ["YES"]}),
    "R": (["Recovery", "recovery"], {"X": [ND], "A": ["AUTOMATIC"], "U": ["USER"], "I": ["IRRECOVERABLE", "INRECOVERABLE"]}),
    "V": (["valueDensity"], {"X": [ND], "D": ["DIFFUSE"], "C": ["CONCENTRATED"]}),
    "RE": (["vulnerabilityResponseEffort"], {"X": [ND], "L": ["LOW"], "M": ["MODERATE"], "H": ["HIGH"]}),
    "U": (["providerUrgency"], {"X": [ND], "Clear": ["CLEAR"], "Green": ["GREEN"], "Amber": ["AMBER"], "Red": ["RED"]}),
}

TABLES = {2: V2, 3: V3, 4: V4}
SCORE_KEYS = {
    2: [("baseScore", None), ("temporalScore", None), ("environmentalScore", None)],
    3: [("baseScore", "baseSeverity"), ("temporalScore", "temporalSeverity"), ("environmentalScore", "environmentalSeverity")],
    4: [("baseScore", "baseSeverity")],
}
VERSION_FIELD = {2: ["2.0"], 3: None, 4: ["4.0", "4"]}
