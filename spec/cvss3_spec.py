"""
CVSS v3.0 / v3.1 scoring, typed from the FIRST specifications (v3.0 section 8, v3.1 section 7)
in exact rational arithmetic.  Nothing is imported from /repo.

m: mapping metric -> value as written in the vector; a metric that is absent maps to None.
minor: "0" or "1".
"""

from fractions import Fraction as F

AV = {"N": F("0.85"), "A": F("0.62"), "L": F("0.55"), "P": F("0.2")}
AC = {"L": F("0.77"), "H": F("0.44")}
PR_UNCHANGED = {"N": F("0.85"), "L": F("0.62"), "H": F("0.27")}
PR_CHANGED = {"N": F("0.85"), "L": F("0.68"), "H": F("0.5")}
UI = {"N": F("0.85"), "R": F("0.62")}
CIA = {"H": F("0.56"), "L": F("0.22"), "N": F("0")}
E = {"X": F("1"), "H": F("1"), "F": F("0.97"), "P": F("0.94"), "U": F("0.91")}
RL = {"X": F("1"), "U": F("1"), "W": F("0.97"), "T": F("0.96"), "O": F("0.95")}
RC = {"X": F("1"), "C": F("1"), "R": F("0.96"), "U": F("0.92")}
REQ = {"X": F("1"), "H": F("1.5"), "M": F("1"), "L": F("0.5")}


def roundup(x):
    """smallest number with one decimal place that is >= x"""
    return F(-((-x * 10) // 1), 10)


def defined(m, name):
    v = m.get(name)
    if v is None or v == "X":
        return None
    return v


def modified(m, name):
    """effective value of Modified <name>: its own value if defined, else the base metric's"""
    v = defined(m, "M" + name)
    if v is None:
        return m[name]
    return v


def opt(m, name):
    v = defined(m, name)
    if v is None:
        return "X"
    return v


def scores(m, minor):
    s = m["S"]
    iss = 1 - (1 - CIA[m["C"]]) * (1 - CIA[m["I"]]) * (1 - CIA[m["A"]])
    if s == "U":
        impact = F("6.42") * iss
        pr = PR_UNCHANGED[m["PR"]]
    else:
        impact = F("7.52") * (iss - F("0.029")) - F("3.25") * (iss - F("0.02")) ** 15
        pr = PR_CHANGED[m["PR"]]
    expl = F("8.22") * AV[m["AV"]] * AC[m["AC"]] * pr * UI[m["UI"]]
    if impact <= 0:
        base = F(0)
    elif s == "U":
        base = roundup(min(impact + expl, F(10)))
    else:
        base = roundup(min(F("1.08") * (impact + expl), F(10)))

    tfac = E[opt(m, "E")] * RL[opt(m, "RL")] * RC[opt(m, "RC")]
    temporal = roundup(base * tfac)

    ms = modified(m, "S")
    miss = min(
        1
        - (1 - CIA[modified(m, "C")] * REQ[opt(m, "CR")])
        * (1 - CIA[modified(m, "I")] * REQ[opt(m, "IR")])
        * (1 - CIA[modified(m, "A")] * REQ[opt(m, "AR")]),
        F("0.915"),
    )
    if ms == "U":
        mimpact = F("6.42") * miss
        mpr = PR_UNCHANGED[modified(m, "PR")]
    else:
        mpr = PR_CHANGED[modified(m, "PR")]
        if minor == "0":
            mimpact = F("7.52") * (miss - F("0.029")) - F("3.25") * (miss - F("0.02")) ** 15
        else:
            mimpact = F("7.52") * (miss - F("0.029")) - F("3.25") * (miss * F("0.9731") - F("0.02")) ** 13
    mexpl = F("8.22") * AV[modified(m, "AV")] * AC[modified(m, "AC")] * mpr * UI[modified(m, "UI")]
    if mimpact <= 0:
        env = F(0)
    elif ms == "U":
        env = roundup(roundup(min(mimpact + mexpl, F(10))) * tfac)
    else:
        env = roundup(roundup(min(F("1.08") * (mimpact + mexpl), F(10))) * tfac)
    return (base, temporal, env)
