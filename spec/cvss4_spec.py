"""
CVSS v4.0 scoring, typed from the FIRST CVSS v4.0 specification (section 8: equivalence classes
EQ1-EQ6, tables 24-29; section 8.2: scoring a vector by interpolation between macrovectors) in
exact rational arithmetic - no floats, no epsilon.

m: mapping metric -> value as written in the vector; absent -> None.

The lookup table has no first-principles derivation and is a pinned copy (cvss4_lookup.py).
The highest-severity vectors and the depths below are typed from tables 24-29 of the
specification; harness/tables4.py additionally derives them from the EQ definitions.
"""

from fractions import Fraction as F

from .cvss4_lookup import LOOKUP

# severity order of each metric's values: distance in steps from the most severe value
LEVEL = {
    "AV": {"N": 0, "A": 1, "L": 2, "P": 3},
    "PR": {"N": 0, "L": 1, "H": 2},
    "UI": {"N": 0, "P": 1, "A": 2},
    "AC": {"L": 0, "H": 1},
    "AT": {"N": 0, "P": 1},
    "VC": {"H": 0, "L": 1, "N": 2},
    "VI": {"H": 0, "L": 1, "N": 2},
    "VA": {"H": 0, "L": 1, "N": 2},
    "SC": {"H": 1, "L": 2, "N": 3},
    "SI": {"S": 0, "H": 1, "L": 2, "N": 3},
    "SA": {"S": 0, "H": 1, "L": 2, "N": 3},
    "CR": {"H": 0, "M": 1, "L": 2},
    "IR": {"H": 0, "M": 1, "L": 2},
    "AR": {"H": 0, "M": 1, "L": 2},
}

# highest severity vectors per equivalence class level (specification tables 24-28)
EQ1_MAX = {
    0: [{"AV": "N", "PR": "N", "UI": "N"}],
    1: [{"AV": "A", "PR": "N", "UI": "N"}, {"AV": "N", "PR": "L", "UI": "N"}, {"AV": "N", "PR": "N", "UI": "P"}],
    2: [{"AV": "P", "PR": "N", "UI": "N"}, {"AV": "A", "PR": "L", "UI": "P"}],
}
EQ2_MAX = {
    0: [{"AC": "L", "AT": "N"}],
    1: [{"AC": "H", "AT": "N"}, {"AC": "L", "AT": "P"}],
}
EQ36_MAX = {
    (0, 0): [{"VC": "H", "VI": "H", "VA": "H", "CR": "H", "IR": "H", "AR": "H"}],
    (0, 1): [
        {"VC": "H", "VI": "H", "VA": "L", "CR": "M", "IR": "M", "AR": "H"},
        {"VC": "H", "VI": "H", "VA": "H", "CR": "M", "IR": "M", "AR": "M"},
    ],
    (1, 0): [
        {"VC": "L", "VI": "H", "VA": "H", "CR": "H", "IR": "H", "AR": "H"},
        {"VC": "H", "VI": "L", "VA": "H", "CR": "H", "IR": "H", "AR": "H"},
    ],
    (1, 1): [
        {"VC": "L", "VI": "H", "VA": "L", "CR": "H", "IR": "M", "AR": "H"},
        {"VC": "L", "VI": "H", "VA": "H", "CR": "H", "IR": "M", "AR": "M"},
        {"VC": "H", "VI": "L", "VA": "H", "CR": "M", "IR": "H", "AR": "M"},
        {"VC": "H", "VI": "L", "VA": "L", "CR": "M", "IR": "H", "AR": "H"},
        {"VC": "L", "VI": "L", "VA": "H", "CR": "H", "IR": "H", "AR": "M"},
    ],
    (2, 1): [{"VC": "L", "VI": "L", "VA": "L", "CR": "H", "IR": "H", "AR": "H"}],
}
EQ4_MAX = {
    0: [{"SC": "H", "SI": "S", "SA": "S"}],
    1: [{"SC": "H", "SI": "H", "SA": "H"}],
    2: [{"SC": "L", "SI": "L", "SA": "L"}],
}

# depth (in steps, "maxSeverity" of the specification's reference implementation data)
EQ1_DEPTH = {0: 1, 1: 4, 2: 5}
EQ2_DEPTH = {0: 1, 1: 2}
EQ36_DEPTH = {(0, 0): 7, (0, 1): 6, (1, 0): 8, (1, 1): 8, (2, 1): 10}
EQ4_DEPTH = {0: 6, 1: 5, 2: 4}


def written(m, name):
    v = m.get(name)
    if v is None or v == "X":
        return None
    return v


def eff(m, name):
    """effective value used for scoring"""
    if name == "E":
        v = written(m, "E")
        if v is None:
            return "A"
        return v
    if name == "CR" or name == "IR" or name == "AR":
        v = written(m, name)
        if v is None:
            return "H"
        return v
    v = written(m, "M" + name)
    if v is None:
        return m[name]
    return v


def eq1(av, pr, ui):
    if av == "N" and pr == "N" and ui == "N":
        return 0
    if (av == "N" or pr == "N" or ui == "N") and av != "P":
        return 1
    return 2


def eq2(ac, at):
    if ac == "L" and at == "N":
        return 0
    return 1


def eq3(vc, vi, va):
    if vc == "H" and vi == "H":
        return 0
    if vc == "H" or vi == "H" or va == "H":
        return 1
    return 2


def eq4(sc, si, sa):
    if si == "S" or sa == "S":
        return 0
    if sc == "H" or si == "H" or sa == "H":
        return 1
    return 2


def eq5(e):
    if e == "A":
        return 0
    if e == "P":
        return 1
    return 2


def eq6(vc, vi, va, cr, ir, ar):
    if (cr == "H" and vc == "H") or (ir == "H" and vi == "H") or (ar == "H" and va == "H"):
        return 0
    return 1


def effective(m):
    e = {}
    for k in ["AV", "PR", "UI", "AC", "AT", "VC", "VI", "VA", "SC", "SI", "SA", "CR", "IR", "AR", "E"]:
        e[k] = eff(m, k)
    return e


def macrovector(e):
    return (
        eq1(e["AV"], e["PR"], e["UI"]),
        eq2(e["AC"], e["AT"]),
        eq3(e["VC"], e["VI"], e["VA"]),
        eq4(e["SC"], e["SI"], e["SA"]),
        eq5(e["E"]),
        eq6(e["VC"], e["VI"], e["VA"], e["CR"], e["IR"], e["AR"]),
    )


def mv_string(mv):
    return "".join([str(x) for x in mv])


def lower_score(mv, changes):
    """score of the macrovector obtained by raising the given EQ positions by one, or None if it
    does not exist"""
    lst = [mv[0], mv[1], mv[2], mv[3], mv[4], mv[5]]
    for i in changes:
        lst[i] = lst[i] + 1
    s = LOOKUP.get(mv_string(lst))
    if s is None:
        return None
    return F(s)


def distance(e, maxes, names):
    """severity distance (in steps) from the first highest-severity vector that is not exceeded
    in any of the class's metrics; None if there is none"""
    for mx in maxes:
        total = 0
        ok = True
        for n in names:
            d = LEVEL[n][e[n]] - LEVEL[n][mx[n]]
            if d < 0:
                ok = False
            total = total + d
        if ok:
            return total
    return None


def no_impact(e):
    return e["VC"] == "N" and e["VI"] == "N" and e["VA"] == "N" and e["SC"] == "N" and e["SI"] == "N" and e["SA"] == "N"


def score_of(e, mv):
    """score of the effective assignment e whose macrovector is mv (mv is passed separately so
    that a case split on the macrovector can supply it as a constant)"""
    if no_impact(e):
        return F(0)
    value = F(LOOKUP[mv_string(mv)])
    l1 = lower_score(mv, [0])
    l2 = lower_score(mv, [1])
    if mv[2] == 0 and mv[5] == 0:
        a = lower_score(mv, [5])
        b = lower_score(mv, [2])
        if a is None:
            l36 = b
        elif b is None:
            l36 = a
        else:
            l36 = max(a, b)
    elif mv[2] == 1 and mv[5] == 1:
        l36 = lower_score(mv, [2])
    elif mv[2] == 0 and mv[5] == 1:
        l36 = lower_score(mv, [2])
    elif mv[2] == 1 and mv[5] == 0:
        l36 = lower_score(mv, [5])
    else:
        l36 = lower_score(mv, [2, 5])
    l4 = lower_score(mv, [3])
    l5 = lower_score(mv, [4])

    d1 = distance(e, EQ1_MAX[mv[0]], ["AV", "PR", "UI"])
    d2 = distance(e, EQ2_MAX[mv[1]], ["AC", "AT"])
    d36 = distance(e, EQ36_MAX[(mv[2], mv[5])], ["VC", "VI", "VA", "CR", "IR", "AR"])
    d4 = distance(e, EQ4_MAX[mv[3]], ["SC", "SI", "SA"])

    n = 0
    total = F(0)
    if l1 is not None:
        n = n + 1
        total = total + (value - l1) * F(d1, EQ1_DEPTH[mv[0]])
    if l2 is not None:
        n = n + 1
        total = total + (value - l2) * F(d2, EQ2_DEPTH[mv[1]])
    if l36 is not None:
        n = n + 1
        total = total + (value - l36) * F(d36, EQ36_DEPTH[(mv[2], mv[5])])
    if l4 is not None:
        n = n + 1
        total = total + (value - l4) * F(d4, EQ4_DEPTH[mv[3]])
    if l5 is not None:
        n = n + 1
    if n == 0:
        mean = F(0)
    else:
        mean = total / n
    x = value - mean
    if x < 0:
        x = F(0)
    if x > 10:
        x = F(10)
    return F((x * 10 + F(1, 2)) // 1, 10)


def score(m):
    e = effective(m)
    return score_of(e, macrovector(e))
