#!/usr/bin/env python3
"""print the markdown table of seeded changes for DESIGN.md section 7 from seeded/*/meta.json"""
import glob, json, os
rows = []
for d in sorted(glob.glob("/verif/seeded/*/")):
    m = json.load(open(os.path.join(d, "meta.json")))
    res = []
    for chk, r in (m.get("check_results") or {}).items():
        res.append("%s: %s" % (chk, {0: "not reported", 1: "**VIOLATION**", 2: "inconclusive", 3: "harness error"}.get(r["exit"], "exit %s" % r["exit"])))
    rows.append("| `%s` | %s | %s | %s |" % (m["name"], m["property"], m["needs_to_manifest"].replace("|", "/")[:170], "; ".join(res)))
print("| seeded change | property | needs, to manifest | quick check result |\n|---|---|---|---|")
print("\n".join(rows))
