#!/usr/bin/env python3
"""regenerates MANIFEST.json from the table below (kept valid at all times)"""
import json, sys

PROPS = [json.loads(l) for l in open('/verif/properties.jsonl')]
CHECKS = {}
def add(pid, technique, text, note, design_ref):
    CHECKS[pid] = dict(technique=technique, text=text, note=note, design_ref=design_ref)

COMMON_NOTE = ("Trusted: the pysymex interpreter (validated every run against the real library on simulation patterns, "
               "every counterexample replayed on the real code before it is reported), z3 QF_FD verdicts, the hand-typed oracle in /verif/spec. "
               "Bounded model checking, not a proof: bounds and what lies outside them are in the evidence file.")

add("C01", "symbolic execution of CVSS3.__init__/scores() from source over finite-domain metric variables; SAT sweeping; z3 decides impl==spec per score value",
    "All v3.0/v3.1 metric assignments (2 x 2.8e13 spellings) are covered symbolically: the real constructor and the exact-rational specification are executed over the same solver variables and z3 proves, per reported value, that the two guards are equivalent; a sat answer is replayed on the real library.",
    COMMON_NOTE, "DESIGN.md section 6 C01")
add("C03", "symbolic execution of CVSS2.__init__/scores() from source over finite-domain metric variables; SAT sweeping; z3 decides impl==spec per score value (incl. None)",
    "All v2 metric assignments (6.9e8) covered symbolically, including the None/number distinction of temporal and environmental scores; solver-decided equivalence with the exact specification, counterexamples replayed.",
    COMMON_NOTE, "DESIGN.md section 6 C03")
add("C02", "symbolic execution of CVSS4.__init__ (m, macroVector, compute_base_score with real float/EPSILON/half-up at the leaves) in 270 macrovector forks; z3 decides impl==exact-rational spec per score value in every fork",
    "All assignments of all 32 v4.0 metrics covered symbolically; the case split over macrovectors is itself solver-checked for feasibility and exhaustiveness; in each fork z3 proves the reported float equals the exact interpolation result. Thorough tier: all 270 macrovectors; quick tier: complete table lemmas (lookup table, MAX_COMPOSED, MAX_SEVERITY) plus a seeded third of the macrovectors (the complete run takes about 25 minutes). The 270 lookup scores of the oracle are a pinned copy (stated limit).",
    COMMON_NOTE, "DESIGN.md section 6 C02")
add("C04", "two engines on the real parse_vector code, both inductive (one step from an arbitrary metric map): (1) forking symbolic execution over z3 sequence-theory terms (pysymex/strsym.py): the loop body on ONE ARBITRARY '/'-free string and the code before the loop on ONE ARBITRARY string, one z3 query per path (cvc5 on unknown), translator validation per path; (2) guarded-union engine with CPython string semantics on one field slot over legal literals + near-miss alphabet, heads one edit away from a legal prefix, check_mandatory from an arbitrary map; z3 decides each step against the grammar step",
    "One-step lemmas from an arbitrary loop state, each decided by the solver over all states and - in the free-string lemmas - over every string of z3's sequence theory (no length bound, code points up to U+2FFFF); composed by a written induction to any number of fields. The finite alphabets of the second engine are listed in the evidence.",
    COMMON_NOTE + " Additionally trusted for the free-string lemmas: the strsym executor (validated per path against the real parse_vector), z3's sequence theory (cvc5 as second solver in the thorough tier).", "DESIGN.md sections 2.6 and 5 (C04)")
add("C05", "two related symbolic runs (ABSENT<->explicit ND/X on any subset) with all outputs compared by z3; commutation lemma for two field slots on the real loop body from an arbitrary state; the real constructor on the canonical spelling and on two whole-vector permutations with every output / every attribute compared by z3; accessors executed with the raw string opaque",
    "Not-Defined spelling: every output of the two runs is solver-proved equal over all assignments and all subsets; field order: solver-proved commutation of the real loop body for any two fields from any state, composed over transpositions by a written induction.",
    COMMON_NOTE, "DESIGN.md section 6 C05")
add("C06", "two related symbolic runs per substitution (selector variable per metric, any subset) with z3 deciding score equality; syntactic support of swept score guards for clause (e); v4 via invariance of the real effective-value function m()",
    "v2/v3: both constructors run for real in one solver session and z3 proves the defined scores equal for every assignment and every subset of substituted metrics. v4: invariance of the effective values proved on the real m(); the score's dependence on them only is C02's result (stated dependency).",
    COMMON_NOTE, "DESIGN.md section 6 C06")
add("C07", "symbolic clean_vector() analysed as a structured string; real constructor re-run on it; two independent symbolic objects per class with z3 deciding a==b <=> same (version, defined metrics), hash/clean implications, foreign values",
    "Canonical-form, re-parse, equality and hash statements are each a solver verdict over all assignments (pairs: all pairs of assignments). Transitivity follows from == being proved equivalent to key equality.",
    COMMON_NOTE, "DESIGN.md section 6 C07")
add("C08", "emitted structured strings re-parsed by the real constructor and run through an NFA of the official vectorString pattern carried symbolically; z3 decides acceptance on every path",
    "Every cleaned / RH vector the library can emit (all assignments) is solver-proved accepted by its own parser and by the official pattern; interactive builder output via C16's model.",
    COMMON_NOTE, "DESIGN.md section 6 C08")
add("C09", "symbolic scores/severities/as_json; every reachable (score, rating) alternative checked against the official scale, offending alternatives must be proved unreachable by z3; band-edge reachability witnesses; v4 additionally with the real scoring code inside a seeded sample of C02's macrovector forks (rating vs the score the same constructor reports)",
    "All reachable score alternatives of v2/v3 (real scoring) and all 101 scores for v4 (abstracted) are examined; a malformed score or wrong rating is a guard that z3 must prove unsatisfiable.",
    COMMON_NOTE, "DESIGN.md section 6 C09")
add("C10", "as_json() executed symbolically for the four option combinations; JSON-Schema keywords evaluated over the symbolic dictionary (regex by NFA over the structured vectorString); z3 decides every part; known findings keyed per failing part",
    "Every part of the official schema is a solver verdict over all assignments (plus inputs with one adjacent transposition, because vectorString echoes the input). Two genuine v4 findings are recorded as known; three were repaired by fix: commits.",
    COMMON_NOTE, "DESIGN.md section 6 C10")
add("C11", "as_json() executed symbolically and compared field by field (z3) with the input string, scores(), severities() and an independent name table; sort/minimal relations between the four dictionaries",
    "Faithfulness of every field, the subset/ordering relations of sort and minimal, and the group-inclusion rule are solver verdicts over all assignments (v2 with real scoring because its group inclusion depends on scores).",
    COMMON_NOTE, "DESIGN.md section 6 C11")
add("C12", "rh_vector() analysed as a structured string; real from_rh_vector executed on it and on <score text>/<valid vector> with the score text ranging over 101 canonical + 41 odd texts + 24 texts defined relative to the object's base score (float() run for real at the leaves); z3 decides outcome class against the oracle",
    "Round trip and the acceptance/error taxonomy are solver verdicts over all vectors x all score texts of the finite alphabet.",
    COMMON_NOTE, "DESIGN.md section 6 C12")
add("C15", "temporal_vector()/environmental_vector() as structured strings compared with the oracle per position (z3); re-assembled vector re-parsed and re-scored by the real constructor, scores compared by z3",
    "All v2/v3 assignments; the score-preservation claim re-executes the real scoring on the emitted sub-vectors.",
    COMMON_NOTE, "DESIGN.md section 6 C15")
add("C18", "every accessor executed twice symbolically from an arbitrary constructed state; effect log of all stores with their path conditions (must be unreachable or target fresh objects); alias check on the interpreter heap; z3 decides feasibility",
    "One inductive step from an arbitrary constructed state (no exception, no store into pre-existing state on any path, fresh results); sequences of any length follow by induction (written).",
    COMMON_NOTE, "DESIGN.md section 6 C18")

add("C13", "whole parse_cvss_from_text executed symbolically with findall replaced by symbolic candidates (real constructors, set semantics through __eq__/__hash__); constructors by summary for the except clause; the candidate pattern (read from source) as an NFA run symbolically over every valid vector; z3 decides",
    "Totality/soundness/duplicate-freedom: solver verdicts over all choices of up to 3 candidates from a finite alphabet; completeness: solver verdict over all valid v2/v3 vectors that each fully matches the current pattern. re's scanning semantics are trusted (written argument).",
    COMMON_NOTE, "DESIGN.md section 6 C13")
add("C16", "ask_interactively executed symbolically (print logged, input() answered from per-(metric, retry) solver variables over a finite answer alphabet), while-loops unrolled to a stated bound; result analysed as a structured string, re-parsed by the real class, official pattern; selectability by sat queries; plus, per metric, one iteration of the real question loop executed by forking symbolic execution over z3 sequence-theory terms for ONE ARBITRARY (stripped) answer, decided per path against a regular-expression oracle",
    "All answer sequences over the finite alphabet up to the retry bound, for 4 versions x {mandatory, all}: solver verdicts that the returned vector is exactly the first legal answers (case-insensitive, empty = Not Defined), accepted by the class; each legal value has a selecting answer (sat witness). The single-iteration lemma removes the answer alphabet for stripped answers of at most 8 ASCII characters.",
    COMMON_NOTE, "DESIGN.md section 6 C16")
add("C17", "cvss_calculator.main() executed symbolically with an argparse recorder stub (flags = solver variables), print logged, interactive entry by summary; output of every (version selection, -v text, -j) case compared with the lines prescribed by the library API; z3 decides reachability of every print and exception",
    "All flag combinations x a finite list of -v texts x interactive outcomes: no exception escapes on any path (solver verdict); output equality per case with -a/-n universally quantified. The glue code is what the property is about; process-level behaviour only in replays.",
    COMMON_NOTE, "DESIGN.md section 6 C17")
add("C19", "effect log of every store / ambient call / print with its path condition over constructors, accessors, from_rh_vector, the parse step from an arbitrary state and the extractor (z3 decides reachability); constructor re-executed under alternative decimal contexts and scores compared by z3 (v2/v3 all sessions; v4 with real scoring inside a seeded sample of macrovector forks)",
    "Decided: ambient decimal context (finite list of rounding modes x precisions) does not change any v2/v3 score for any assignment, nor the v4 score in the sampled macrovector forks; no path stores into module-level or ambient state or prints. NOT explored: thread schedules and call histories - they follow from the frame condition by a written non-interference argument; hash seed only via logged hash-order-dependent iterations.",
    COMMON_NOTE, "DESIGN.md section 6 C19 and section 8")

add("C14", "product execution (pair-valued leaves, two-sided control flow) of the real constructors per metric step; z3 decides the guard of every reachable (before, after) pair with after < before; v4: lookup-table lemma plus a seeded sample of product-execution forks",
    "v2 (20 steps) and v3.0/v3.1 (41 steps each): every reachable score pair is constructed symbolically and each order-violating pair must be proved unreachable - complete over the full domain (all other metrics symbolic) except five steps with diverging control flow (S, MS, C/I/A None->Low), which run in restricted configurations (stated in the evidence). v4: complete only for the lookup-table lemma; product execution covers a seeded sample (stated).",
    COMMON_NOTE, "DESIGN.md section 6 C14")

NA = {
 "C20": "quantifies over nine CPython binaries (2.7 ... 3.13); solver-based checking would need an encoding of those interpreters' semantics, which is not within reach; running a probe under each interpreter is concrete differential testing, a different technique (DESIGN.md section 8)",
}

def main():
    m = {"version": 1,
         "setup_cmd": "python3-vt /verif/harness/setup_check.py",
         "hooks": {"guard": "CVSS_VERIF", "enable": "no source hooks are needed: checks read /repo/cvss/*.py as source text on every run (CVSS_VERIF is unused by /repo)",
                   "baseline_off_cmd": "cd /repo && /venv/bin/python -m pytest -ra -q -p no:cacheprovider --timeout=900 --continue-on-collection-errors",
                   "source_commits": [], "add_only": True},
         "engines": [{"name": "pysymex", "path": "/verif/pysymex", "serves_properties": sorted(CHECKS),
                      "kind_free_text": "if-converted symbolic AST interpreter over /repo/cvss/*.py (re-parsed every run); guarded unions of concrete values; SAT sweeping with z3 QF_FD deciding every merge and every verdict; counterexamples replayed on the real library"}],
         "checks": [], "not_applicable": [],
         "notes": "exit codes: 0 pass, 1 VIOLATION (replay-confirmed), 2 inconclusive (solver unknown / unsupported construct), 3 harness error. See DESIGN.md."}
    for p in PROPS:
        pid = p["id"]
        if pid in CHECKS:
            c = CHECKS[pid]
            m["checks"].append({"property_id": pid,
                "quick_cmd": "./check %s --tier quick" % pid,
                "thorough_cmd": "./check %s --tier thorough" % pid,
                "evidence_file": "/verif/evidence/%s.json" % pid,
                "replay_cmd_template": "./check --replay {path}",
                "engine": "pysymex",
                "level_claimed": {"category": "model_checking", "text": c["text"], "design_ref": c["design_ref"]},
                "level_note": c["note"], "technique": c["technique"]})
        else:
            m["not_applicable"].append({"property_id": pid, "reason": NA.get(pid, "check not built yet (engine and harnesses under construction; planned in DESIGN.md section 6)")})
    json.dump(m, open('/verif/MANIFEST.json', 'w'), indent=1)
    try:
        import jsonschema
        jsonschema.validate(m, json.load(open('/root/.vp/MANIFEST.schema.json')))
        print("MANIFEST valid:", len(m["checks"]), "checks,", len(m["not_applicable"]), "not applicable")
    except ImportError:
        print("written (jsonschema not available)")

if __name__ == "__main__":
    main()
