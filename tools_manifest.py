#!/usr/bin/env python3
"""regenerates MANIFEST.json from the table below (kept valid at all times)"""
import json, sys

PROPS = [json.loads(l) for l in open('/verif/properties.jsonl')]
CHECKS = {}
def add(pid, technique, text, note, design_ref):
    CHECKS[pid] = dict(technique=technique, text=text, note=note, design_ref=design_ref)

COMMON_NOTE = ("Trusted: the pysymex interpreter (validated every run against the real library on simulation patterns, "
               "every counterexample replayed on the real code before it is reported), z3 QF_FD verdicts, the hand-typed oracle in /verif/spec. "
               "Bounded model checking, not a proof: bounds and what lies outside them are in the evidence file.")

add("C01", "symbolic execution of CVSS3.__init__/scores() from source over finite-domain metric variables; SAT sweeping; z3 decides impl==spec per score value",
    "All v3.0/v3.1 metric assignments (2 x 2.8e13 spellings) are covered symbolically: the real constructor and the exact-rational specification are executed over the same solver variables and z3 proves, per reported value, that the two guards are equivalent; a sat answer is replayed on the real library.",
    COMMON_NOTE, "DESIGN.md section 6 C01")
add("C03", "symbolic execution of CVSS2.__init__/scores() from source over finite-domain metric variables; SAT sweeping; z3 decides impl==spec per score value (incl. None)",
    "All v2 metric assignments (6.9e8) covered symbolically, including the None/number distinction of temporal and environmental scores; solver-decided equivalence with the exact specification, counterexamples replayed.",
    COMMON_NOTE, "DESIGN.md section 6 C03")

NA = {
 "C20": "quantifies over nine CPython binaries (2.7 ... 3.13); solver-based checking would need an encoding of those interpreters' semantics, which is not within reach; running a probe under each interpreter is concrete differential testing, a different technique (DESIGN.md section 8)",
}

def main():
    m = {"version": 1,
         "setup_cmd": "python3-vt /verif/harness/setup_check.py",
         "hooks": {"guard": "CVSS_VERIF", "enable": "no source hooks are needed: checks read /repo/cvss/*.py as source text on every run (CVSS_VERIF is unused by /repo)",
                   "baseline_off_cmd": "cd /repo && /venv/bin/python -m pytest -ra -q -p no:cacheprovider --timeout=900 --continue-on-collection-errors",
                   "source_commits": [], "add_only": True},
         "engines": [{"name": "pysymex", "path": "/verif/pysymex", "serves_properties": sorted(CHECKS),
                      "kind_free_text": "if-converted symbolic AST interpreter over /repo/cvss/*.py (re-parsed every run); guarded unions of concrete values; SAT sweeping with z3 QF_FD deciding every merge and every verdict; counterexamples replayed on the real library"}],
         "checks": [], "not_applicable": [],
         "notes": "exit codes: 0 pass, 1 VIOLATION (replay-confirmed), 2 inconclusive (solver unknown / unsupported construct), 3 harness error. See DESIGN.md."}
    for p in PROPS:
        pid = p["id"]
        if pid in CHECKS:
            c = CHECKS[pid]
            m["checks"].append({"property_id": pid,
                "quick_cmd": "./check %s --tier quick" % pid,
                "thorough_cmd": "./check %s --tier thorough" % pid,
                "evidence_file": "/verif/evidence/%s.json" % pid,
                "replay_cmd_template": "./check --replay {path}",
                "engine": "pysymex",
                "level_claimed": {"category": "model_checking", "text": c["text"], "design_ref": c["design_ref"]},
                "level_note": c["note"], "technique": c["technique"]})
        else:
            m["not_applicable"].append({"property_id": pid, "reason": NA.get(pid, "check not built yet (engine and harnesses under construction; planned in DESIGN.md section 6)")})
    json.dump(m, open('/verif/MANIFEST.json', 'w'), indent=1)
    try:
        import jsonschema
        jsonschema.validate(m, json.load(open('/root/.vp/MANIFEST.schema.json')))
        print("MANIFEST valid:", len(m["checks"]), "checks,", len(m["not_applicable"]), "not applicable")
    except ImportError:
        print("written (jsonschema not available)")

if __name__ == "__main__":
    main()
