#!/usr/bin/env python3
"""Translator self-test: small programs in the Python subset are executed by pysymex and by
CPython on the same inputs (concrete and symbolic: every alternative of a symbolic input is
compared under its guard).  Not a property check; run with `python3-vt selftest/run.py`.
Exit 0 if every result agrees."""
import itertools
import os
import shutil
import sys
import tempfile
import textwrap

sys.path.insert(0, os.path.dirname(os.path.dirname(os.path.abspath(__file__))))
from harness.common import Session, U  # noqa: E402
from pysymex.values import UNBOUND, Unsupported  # noqa: E402

PROGRAMS = {
    "iterators": ('''
class A(object):
    def __init__(self, d):
        self.d = d
        self.f = filter(self.d.get, ["a", "b", "c"])
        self.g = (x for x in [1, 2, 3])
    def m(self):
        return any(self.f)
def run(x, y):
    a = A({"a": x, "b": 0, "c": y})
    r = [a.m(), a.m(), a.m()]
    l1 = list(a.g); l2 = list(a.g)
    z = [i for i, q in enumerate(["p", "q"])]
    s = "-".join(str(q) for q in [1, 2])
    e = sorted(zip([2, 1], "ab"))
    n = next((k for k in ["u", "v"] if k == "v"), None)
    w = all(map(lambda t: t > 0, [x + 1, y + 1]))
    return (r, l1, l2, z, s, e, n, w)
''', [(0, 0), (1, 0), (0, 2), (1, 1)]),
    "strings": ('''
def run(x, y):
    v = "A:" + str(x) + "/B:" + str(y)
    fields = v.split("/")
    out = {}
    for f in fields:
        k, val = f.split(":")
        if k in out:
            raise ValueError("dup")
        out[k] = val
    return (sorted(out.items()), v.startswith("A:1"), v.endswith(":2"), v.upper(), len(fields), "/".join(reversed(fields)))
''', [(0, 0), (1, 2), (1, 0), (3, 2)]),
    "control": ('''
def f(x):
    if x > 2:
        return "big"
    elif x == 2:
        raise KeyError("two")
    return "small"
def run(x, y):
    res = []
    for v in (x, y):
        try:
            res.append(f(v))
        except KeyError as e:
            res.append("err")
        else:
            res.append("ok")
        finally:
            res.append("fin")
    i = 0
    while i < x:
        i += 1
        if i == 2:
            break
    return (res, i, [a * b for a in (x, y) for b in (1, 2) if a != b], {k: v for k, v in zip("ab", (x, y))})
''', [(0, 0), (1, 2), (3, 2), (2, 3), (3, 3)]),
    "decimal": ('''
from decimal import Decimal as D, ROUND_CEILING, ROUND_HALF_UP
def run(x, y):
    a = D("0.1") * x + D("0.35") * y
    b = a.quantize(D("0.1"), rounding=ROUND_CEILING)
    c = float(D(x * 0.15 + y * 0.05 + 0.0000001).quantize(D("0.1"), rounding=ROUND_HALF_UP))
    d = min(D("1.5"), a) if a > 0 else None
    return (a, b, c, d, round(float(a), 1), max(x, y) ** 2, b <= D("0.7"))
''', [(0, 0), (1, 2), (3, 2), (2, 3), (3, 3)]),
    "objects": ('''
class P(object):
    K = {"a": 1}
    def __init__(self, n):
        self.n = n
        self.items = []
    def add(self, v):
        self.items.append(v)
        return self
    def __eq__(self, o):
        return isinstance(o, P) and self.n == o.n
    def __hash__(self):
        return hash(self.n)
def run(x, y):
    p, q = P(x), P(y)
    p.add(1).add(x)
    s = {p, q}
    d = dict(P.K)
    d.setdefault("b", y)
    return (p == q, len(s), p.items, sorted(d.items()), hasattr(p, "n"), getattr(q, "zz", "dflt"), isinstance(p, P), p != q)
''', [(0, 0), (1, 2), (2, 2)]),
    "dicts": ('''
from collections import OrderedDict
def run(x, y):
    d = OrderedDict()
    d["k%d" % x] = y
    d["k1"] = d.get("k1", 0) + 5
    d.update({"z": x})
    if "k0" in d:
        del d["k0"]
    keys = sorted(d.keys())
    vals = sorted(d[k] for k in d)
    e = dict((k, v) for k, v in d.items() if v != 2)
    p = d.pop("zz", "none")
    c = d.copy(); c["new"] = 1
    return (keys, vals, sorted(e.items()), p, len(d), len(c), sorted(d.items()) == sorted(c.items()), "k1" in d, d.get("q"))
''', [(0, 0), (1, 2), (2, 2), (0, 3)]),
    "classes": ('''
class Base(Exception):
    pass
class Child(Base):
    pass
class Other(Exception):
    pass
class S(object):
    factor = 2
    def __init__(self, v):
        self.v = v
    def val(self):
        return self.v * self.factor
    def describe(self):
        return "{0}:{1}".format(type(self).__name__, self.val())
class T(S):
    factor = 3
    def val(self):
        return S.val(self) + 1
def thrower(x):
    if x == 0:
        raise Child("c")
    if x == 1:
        raise Other("o")
    return x
def run(x, y):
    out = []
    for v in (x, y):
        try:
            out.append(thrower(v))
        except Base as e:
            out.append("base:" + str(e))
        except Other:
            out.append("other")
    def mk(k):
        def inner(z):
            return z + k
        return inner
    f = mk(x)
    objs = [S(x), T(y)]
    return (out, f(y), [o.describe() for o in objs], isinstance(objs[1], S), sorted([3, x, y], reverse=True), "%s-%d" % ("a", x), str(y).zfill(3))
''', [(0, 0), (1, 2), (2, 1), (3, 0)]),
    "listpop": ('''
def run(x, y):
    v = "H:" + str(x) + "/B:" + str(y) + "/C:3"
    fields = v.split("/")
    head = fields.pop(0)
    last = fields.pop()
    name, minor = head.split(":")
    rest = list(fields)
    out = []
    try:
        fields.pop()
        fields.pop()
    except IndexError:
        out.append("empty")
    return (head, last, name, int(minor), rest, len(fields), out)
''', [(0, 0), (1, 2), (2, 1), (3, 3)]),
    "enumerate_optional": ('''
def run(x, y):
    groups = [("a", x), ("b", y), ("c", x + y), ("d", 1)]
    kept = [g for g in groups if g[1] > 0]
    out = []
    for i, (name, v) in enumerate(kept):
        out.append((i, name, v))
    return (out, [i for i, g in enumerate(kept, 5)])
''', [(0, 0), (1, 0), (0, 2), (1, 1)]),
    "sequences": ('''
def run(x, y):
    l = [x, y, x + y, 7]
    t = tuple(l[1:3])
    a, b = t
    s = "abcdef"[x:x + 2]
    return (l[-1], l[::2], t, a, b, s, x in l[2:], l.index(7), sum(l), min(l), max(l), list(range(x, y)), [i for i in range(4) if i % 2 == x % 2],
            "N" if x == y else ("L" if x < y else "H"), not x, x and y, x or y, bool(l), len(l[x:]))
''', [(0, 0), (1, 2), (2, 1), (3, 3)]),
}


def flat(sess, v, model):
    v = sess.concretize(v, model) if model is not None else v
    return norm(v)


def norm(v):
    if hasattr(v, "elems"):
        return [norm(e[1]) for e in v.elems]
    if isinstance(v, (list, tuple)):
        return [norm(x) for x in v]
    if isinstance(v, dict):
        return sorted((k, norm(x)) for k, x in v.items())
    return v


def main():
    d = tempfile.mkdtemp(dir="/var/tmp", prefix="verif_selftest_")
    bad = 0
    n = 0
    declined = []
    try:
        os.makedirs(os.path.join(d, "stpk"))
        open(os.path.join(d, "stpk", "__init__.py"), "w").write("")
        for name, (src, inputs) in PROGRAMS.items():
            open(os.path.join(d, "stpk", name + ".py"), "w").write(textwrap.dedent(src))
        for name, (src, inputs) in PROGRAMS.items():
            ns = {}
            exec(textwrap.dedent(src), ns)
            # concrete inputs
            for args in inputs:
                sess = Session(extra_roots=[d])
                mod = sess.load("stpk." + name)
                sess.begin(mod)
                try:
                    want = ("ok", norm(ns["run"](*args)))
                except Exception as e:  # noqa: BLE001
                    want = ("raise", type(e).__name__)
                try:
                    r, raised = sess.call(mod.globals["run"], list(args))
                except Unsupported as e:
                    declined.append("%s%r: %s" % (name, args, e))
                    continue
                live = [(c, e) for c, e in raised if not sess.vc.c_is_false(c)]
                if live:
                    e = live[0][1]
                    got = ("raise", type(e).__name__ if isinstance(e, BaseException) else e.cls.name)
                else:
                    got = ("ok", norm(sess.concretize(r, {})))
                n += 1
                if got != want:
                    bad += 1
                    print("MISMATCH %s%r\n  pysymex %r\n  cpython %r" % (name, args, got, want))
            # symbolic inputs: both arguments range over the values used above
            xs = sorted({a[0] for a in inputs})
            ys = sorted({a[1] for a in inputs})
            sess = Session(extra_roots=[d])
            m, vc = sess.m, sess.vc
            vx = m.new_var("x", xs)
            vy = m.new_var("y", ys)
            mod = sess.load("stpk." + name)
            sess.begin(mod)
            try:
                r, raised = sess.call(mod.globals["run"], [vc.from_var(vx), vc.from_var(vy)])
            except Unsupported as e:
                declined.append("%s (symbolic): %s" % (name, e))
                continue
            for x, y in itertools.product(xs, ys):
                model = {"x": x, "y": y}
                try:
                    want = ("ok", norm(ns["run"](x, y)))
                except Exception as e:  # noqa: BLE001
                    want = ("raise", type(e).__name__)
                got = None
                for c, e in raised:
                    if m.eval_nodes([vc.c_any(c)], model)[0]:
                        got = ("raise", type(e).__name__ if isinstance(e, BaseException) else e.cls.name)
                if got is None:
                    got = ("ok", norm(sess.concretize(r, model)))
                n += 1
                if got != want:
                    bad += 1
                    print("MISMATCH (symbolic) %s x=%r y=%r\n  pysymex %r\n  cpython %r" % (name, x, y, got, want))
    finally:
        shutil.rmtree(d, ignore_errors=True)
    for x in declined:
        print("declined (Unsupported, would be reported as inconclusive):", x)
    print("selftest: %d comparisons, %d mismatches, %d runs declined" % (n, bad, len(declined)))
    sys.exit(1 if bad else 0)


main()
