#!/usr/bin/env python3
"""Self-test of the string executor (pysymex/strsym.py): small string programs are executed by it
on symbolic-typed but CONSTANT inputs (z3 string literals, so every branch goes through the same
encodings and the solver) and by CPython on the same inputs; results must agree.
Run with `python3-vt selftest/strsym_test.py`; exit 0 if everything agrees."""
import os
import re
import sys
import types

sys.path.insert(0, os.path.dirname(os.path.dirname(os.path.abspath(__file__))))
import z3  # noqa: E402

from pysymex import strsym as S  # noqa: E402

SRC = '''
import re
TABLE = {"AV": ["N", "A", "L", "P"], "AC": ["L", "H"], "E": ["X", "A", "P", "U"]}
FIELD = re.compile(r"^([A-Z]+):([A-Za-z]+)$")
PREFIX = re.compile(r"CVSS:3\\.(\\d)/")

def p_split(s):
    if s == "":
        raise ValueError("empty")
    try:
        k, v = s.split(":")
    except ValueError:
        raise KeyError("shape")
    if k in TABLE:
        if v in TABLE[k]:
            return (k, v, True)
        return (k, v, False)
    return ("?", v, False)

def p_misc(s):
    a, sep, b = s.partition("/")
    return (a, sep, b, s.startswith("CVSS:3."), s.endswith("/"), len(s), s[:4], s[2:], s[-1:], "AV" in s, s + "!", s.find(":"))

def p_strip(s):
    t = s.strip()
    if not t:
        return "ND"
    return (t, t.upper(), t.lower() == "clear", len(t))

def p_regex(s):
    m = FIELD.match(s)
    if m is None:
        return None
    k, v = m.groups()
    return (k, v, m.group(0))

def p_prefix(s):
    m = PREFIX.match(s)
    if not m:
        return "no"
    return ("minor", m.group(1))

def p_index(s):
    parts = s.split("/")
    head = parts[0]
    rest = parts[1:]
    return (head, len(rest) if len(parts) < 4 else "many", parts[-1])
'''

INPUTS = ["", "AV:N", "AV:Q", "XX:N", "AV", "AV:N:N", ":", "AV:", ":N", " AV:N", "AV:N ", "\tclear\n", "Clear", "cLeAr  ", "   ", "E:P", "AV:N\n", "AV:N\n\n", "av:n",
          "CVSS:3.1/AV:N", "CVSS:3.0/", "CVSS:3.\uff11/AV:N", "CVSS:3.10/AV:N", "a/b/c", "a/b/c/d/e", "/", "x", "CVSS:3.1"]


def norm(v):
    if isinstance(v, S.SStr):
        c = z3.simplify(v.z)
        if not z3.is_string_value(c):
            # fresh variables (strip / upper / regex groups): ask the solver for the value
            raise LookupError("not ground")
        return re.sub(r"\\u\{([0-9a-fA-F]+)\}", lambda mo: chr(int(mo.group(1), 16)), c.as_string())
    if isinstance(v, S.SInt):
        return z3.simplify(v.z).as_long()
    if isinstance(v, S.SBool):
        return z3.is_true(z3.simplify(v.z))
    if isinstance(v, (tuple, list)):
        return type(v)(norm(x) for x in v)
    return v


def ground(ex, path, v):
    """value of a result under the path's constraints (unique, because the input is constant)"""
    s = z3.Solver()
    s.add(path.pc)
    if s.check() != z3.sat:
        return ("infeasible",)
    mdl = s.model()

    def g(x):
        if isinstance(x, S.SStr):
            return S.py_string(mdl, x.z)
        if isinstance(x, S.SInt):
            return mdl.eval(x.z, model_completion=True).as_long()
        if isinstance(x, S.SBool):
            return z3.is_true(mdl.eval(x.z, model_completion=True))
        if isinstance(x, (tuple, list)):
            return type(x)(g(y) for y in x)
        return x

    return g(v)


def main():
    mod = types.ModuleType("strsym_selftest_programs")
    mod.__file__ = "<selftest>"
    import linecache

    linecache.cache["<strsym-selftest>"] = (len(SRC), None, SRC.splitlines(True), "<strsym-selftest>")
    exec(compile(SRC, "<strsym-selftest>", "exec"), mod.__dict__)
    sys.modules[mod.__name__] = mod
    bad = n = declined = 0
    for name in ("p_split", "p_misc", "p_strip", "p_regex", "p_prefix", "p_index"):
        fn = getattr(mod, name)
        for x in (INPUTS if name != "p_strip" else ["", "AV:N", " AV:N", "\tclear\n", "Clear", "cLeAr  ", "   ", "x", "AV:N\n"]):
            try:
                want = ("ok", fn(x))
            except Exception as e:  # noqa: BLE001
                want = ("raise", type(e).__name__)
            ex = S.Executor(mod)
            inp = z3.String("inp")
            ex.assume = [inp == z3.StringVal(x)]

            def run(ex):
                ex.path.pc.append(inp == z3.StringVal(x))
                ex.path.result = ex.call_interpreted(fn, [S.SStr(inp)], {})
                return ("normal",)

            try:
                paths = ex.explore(run)
            except S.Unsupported as e:
                declined += 1
                print("declined %s(%r): %s" % (name, x, e))
                continue
            got = []
            for p in paths:
                s = z3.Solver()
                s.add(p.pc)
                if s.check() != z3.sat:
                    continue
                if p.outcome[0] == "normal":
                    got.append(("ok", ground(ex, p, p.result)))
                elif p.outcome[0] == "raise":
                    got.append(("raise", type(p.outcome[1]).__name__))
                else:
                    got.append(p.outcome)
            n += 1
            if any(g[0] == "unsupported" for g in got):
                declined += 1
                print("declined %s(%r): %s" % (name, x, [g for g in got if g[0] == "unsupported"][0][1]))
                continue
            if len(got) != 1 or got[0] != want:
                bad += 1
                print("MISMATCH %s(%r)\n  strsym  %r\n  cpython %r" % (name, x, got, want))
    sys.stdout.flush(); print("strsym selftest: %d comparisons, %d mismatches, %d declined" % (n, bad, declined))
    sys.exit(1 if bad else 0)


main()
