#!/usr/bin/env python3
"""confirm a seeded change living in a scratch worktree and store it under /verif/seeded/<name>/

usage: tools_seed.py <worktree> <property id> <name> "<what it needs to manifest>"
Confirms: (1) pinned test suite passes identically with the change, (2) the demonstration exits
non-zero with the change and zero without it.  Writes patch.diff, the demo and meta.json.
"""
import json, os, subprocess, sys, shutil, glob, re

def sh(cmd, cwd):
    p = subprocess.run(cmd, shell=True, cwd=cwd, capture_output=True, text=True)
    return p.returncode, p.stdout + p.stderr

def suite(wt):
    rc, out = sh("/venv/bin/python -m pytest -q -rA -p no:cacheprovider --timeout=900 --continue-on-collection-errors 2>&1 | grep -E '^(PASSED|FAILED|ERROR)' | sort", wt)
    passed = sorted(l.split()[1] for l in out.splitlines() if l.startswith("PASSED"))
    return passed

def main():
    wt, pid, name, needs = sys.argv[1:5]
    demo = glob.glob(os.path.join(wt, "demo_*.py"))
    assert len(demo) == 1, demo
    demo = demo[0]
    rc, diff = sh("git diff -- cvss", wt)
    assert diff.strip(), "no change in worktree"
    dst = os.path.join("/verif/seeded", name)
    os.makedirs(dst, exist_ok=True)
    open(os.path.join(dst, "patch.diff"), "w").write(diff)
    ran = []
    with_pass = suite(wt)
    rc_with, out_with = sh("/venv/bin/python %s" % os.path.basename(demo), wt)
    sh("git diff -- cvss > /tmp/_seed.diff && git checkout -- cvss", wt)
    try:
        base_pass = suite(wt)
        rc_without, out_without = sh("/venv/bin/python %s" % os.path.basename(demo), wt)
    finally:
        sh("git apply /tmp/_seed.diff", wt)
    ok = (with_pass == base_pass and len(base_pass) == 34 and rc_with != 0 and rc_without == 0)
    demo_src = open(demo).read().replace(wt, "/repo")
    open(os.path.join(dst, os.path.basename(demo)), "w").write(demo_src)
    notes = glob.glob(os.path.join(wt, "NOTES_*.md"))
    if notes:
        shutil.copy(notes[0], os.path.join(dst, "NOTES.md"))
    meta = {"property": pid, "name": name, "needs_to_manifest": needs,
            "confirmed": ok,
            "ran": {"pinned suite with change": "%d passed (identical set: %s)" % (len(with_pass), with_pass == base_pass),
                    "pinned suite without change": "%d passed" % len(base_pass),
                    "demo with change": "exit %d: %s" % (rc_with, out_with.strip().splitlines()[-1][:200] if out_with.strip() else ""),
                    "demo without change": "exit %d: %s" % (rc_without, out_without.strip().splitlines()[-1][:200] if out_without.strip() else "")},
            "demo": os.path.basename(demo) + " (paths rewritten to /repo: apply patch.diff to /repo, run with /venv/bin/python, undo)",
            "detected_by": None}
    json.dump(meta, open(os.path.join(dst, "meta.json"), "w"), indent=1)
    print(json.dumps(meta, indent=1))
    sys.exit(0 if ok else 1)

main()
