"""
C14: a more severe metric value never lowers a score.  Decided by *product execution* ("pair
mode"): the stepped metric's field is the pair leaf (less severe text, more severe text), every
leaf operation of the real constructor runs componentwise, control flow is two-sided, so one
symbolic run yields the union of reachable (score before, score after) pairs with constructed
guards; a pair with after < before must have an unsatisfiable guard.  No oracle data is used.
"""

import sys
import time

from . import common as C
from . import objects as O
from .common import ABSENT, G, U, Check, Cond, Pair, Session, StructStr, SymDict, SymList, unsat_or_cex

# severity orders, least severe first (typed from the standards' metric value descriptions)
ORDER = {
    2: {"AV": ["L", "A", "N"], "AC": ["H", "M", "L"], "Au": ["M", "S", "N"], "C": ["N", "P", "C"], "I": ["N", "P", "C"], "A": ["N", "P", "C"],
        "E": ["U", "POC", "F", "H"], "RL": ["OF", "TF", "W", "U"], "RC": ["UC", "UR", "C"]},
    3: {"AV": ["P", "L", "A", "N"], "AC": ["H", "L"], "PR": ["H", "L", "N"], "UI": ["R", "N"], "S": ["U", "C"], "C": ["N", "L", "H"], "I": ["N", "L", "H"], "A": ["N", "L", "H"],
        "E": ["U", "P", "F", "H"], "RL": ["O", "T", "W", "U"], "RC": ["U", "R", "C"], "CR": ["L", "M", "H"], "IR": ["L", "M", "H"], "AR": ["L", "M", "H"],
        "MAV": ["P", "L", "A", "N"], "MAC": ["H", "L"], "MPR": ["H", "L", "N"], "MUI": ["R", "N"], "MS": ["U", "C"], "MC": ["N", "L", "H"], "MI": ["N", "L", "H"], "MA": ["N", "L", "H"]},
    4: {"AV": ["P", "L", "A", "N"], "AC": ["H", "L"], "AT": ["P", "N"], "PR": ["H", "L", "N"], "UI": ["A", "P", "N"], "VC": ["N", "L", "H"], "VI": ["N", "L", "H"], "VA": ["N", "L", "H"],
        "SC": ["N", "L", "H"], "SI": ["N", "L", "H"], "SA": ["N", "L", "H"], "E": ["U", "P", "A"], "CR": ["L", "M", "H"], "IR": ["L", "M", "H"], "AR": ["L", "M", "H"],
        "MAV": ["P", "L", "A", "N"], "MAC": ["H", "L"], "MAT": ["P", "N"], "MPR": ["H", "L", "N"], "MUI": ["A", "P", "N"], "MVC": ["N", "L", "H"], "MVI": ["N", "L", "H"], "MVA": ["N", "L", "H"],
        "MSC": ["N", "L", "H"], "MSI": ["N", "L", "H", "S"], "MSA": ["N", "L", "H", "S"]},
}
V30_ENV_EXEMPT = {"C", "I", "A", "CR", "IR", "AR", "MC", "MI", "MA"}


def steps(version):
    out = []
    for met, _ in G.GRAMMARS[version]["metrics"]:
        o = ORDER[version].get(met)
        if not o:
            continue
        for a, b in zip(o, o[1:]):
            out.append((met, a, b))
    return out


def pair_vector(sess, version, vars_, met, a, b):
    """canonical-order structured string in which metric `met` carries the pair leaf"""
    m, vc = sess.m, sess.vc
    base = sess.vector_from_vars(version, vars_)
    chunks = []
    names = [None] if version == 2 else ["<head>"]
    g = G.GRAMMARS[version]
    order = [x for x, _ in g["metrics"]]
    # rebuild: vector_from_vars skips metrics without variable; insert the pair chunk in place
    chunks = list(base.chunks[: (0 if version == 2 else 1)])
    rest = list(base.chunks[(0 if version == 2 else 1):])
    it = iter(rest)
    for x in order:
        if x == met:
            chunks.append((m.TRUE, Pair(met + ":" + a, met + ":" + b)))
        elif x in vars_:
            chunks.append(next(it))
    return StructStr("/", chunks)


def num(v):
    from decimal import Decimal

    if v is None:
        return None
    return Decimal(repr(v)) if isinstance(v, float) else Decimal(v)


def task(version, minor, met, a, b, extra_fixed=None):
    chk = Check("C14")
    sess = Session()
    m, vc = sess.m, sess.vc
    # no second computation to align with: sweeping merges are not needed in pair mode
    m.sweeping = False
    fixed = dict(extra_fixed or {})
    fixed[met] = [a]
    if version == 3:
        fixed["minor"] = [minor]
    vars_ = sess.assign_vars(version, fixed=fixed)
    del vars_[met]
    label = "v%s%s %s:%s->%s" % (version, "." + minor if minor else "", met, a, b)
    if version == 3 and extra_fixed:
        label += " [" + ",".join("%s=%s" % (k, "absent" if v == [ABSENT] else "/".join(map(str, v))) for k, v in sorted(extra_fixed.items()) if k != "minor") + "]"
    vec = pair_vector(sess, version, vars_, met, a, b)
    mod = sess.load("cvss")
    C.set_epoch(1)
    sess.begin(mod)
    cls = mod.globals["CVSS%d" % version]

    def mk_replay(model, what):
        # left vector: met = a, right: met = b
        mm = dict(model)
        mm[met] = a
        va = sess.vector_string(version, mm)
        mm[met] = b
        vb = sess.vector_string(version, mm)
        return {"kind": "c14", "version": version, "a": va, "b": vb, "what": what}

    t0 = time.time()
    obj, raised = sess.call(cls, [vec])
    for cond, exc in raised:
        nm = type(exc).__name__ if isinstance(exc, BaseException) else exc.cls.name
        O.must_not(sess, chk, m.OR(cond.l, cond.r), "%s: constructor raises %s" % (label, nm), mk_replay)
    sc, raised = sess.call_method(obj, "scores")
    items = O.items_of(sc)
    names = ["base", "temporal", "environmental"][: len(items)]
    npairs = 0
    for i, s in enumerate(items):
        if version == 2 and i == 2:
            continue  # the property covers base and temporal for v2
        if version == 3 and minor == "0" and i == 2 and met in V30_ENV_EXEMPT:
            continue  # the 3.0 standard itself is non-monotone there (exempt by the property)
        for g, leaf in vc.alts(s):
            if type(leaf) is not Pair:
                continue
            npairs += 1
            l, r = leaf.l, leaf.r
            if l is C.UNBOUND or r is C.UNBOUND:
                O.must_not(sess, chk, g, "%s: %s score undefined on one side" % (label, names[i]), mk_replay)
                continue
            if (l is None) != (r is None):
                O.must_not(sess, chk, g, "%s: %s score defined on one side only (%r, %r)" % (label, names[i], l, r), mk_replay)
                continue
            if l is None:
                continue
            if num(r) < num(l):
                O.must_not(sess, chk, g, "%s: %s score drops from %r to %r" % (label, names[i], l, r), mk_replay)
    chk.extra["reachable_score_pairs"] = npairs
    chk.extra["steps"] = 1
    chk.extra["timing"] = [{"step": label, "s": round(time.time() - t0, 1), "nodes": len(m.nodes)}]
    w = m.pattern_assignment(0)
    chk.witnesses.append({"step": label, "pair": mk_replay(w, "")})
    chk.absorb(sess)
    return chk.to_dict()


def configurations(version, met, a, b):
    """list of (extra_fixed, note) configurations a step is run in.
    v2: environmental metrics absent (only base and temporal scores are in the property).
    v3: the full domain (all other 21 metrics symbolic, absent included) - except for the five
    steps whose two sides take different branches of the scoring code for many inputs (Scope,
    Modified Scope, and C/I/A from None to Low: the zero-impact branch).  There the product run
    over temporal x environmental metrics together does not finish in this engine (> 25 min,
    measured), so those steps are run in restricted configurations and the rest is stated as
    outside the claim."""
    g = G.GRAMMARS[version]
    if version == 2:
        return [({x: [ABSENT] for x in g["environmental"]}, None)]
    heavy = met in ("S", "MS") or (met in ("C", "I", "A") and a == "N")
    if not heavy:
        return [({}, None)]
    out = [({x: [ABSENT] for x in g["environmental"]}, "environmental metrics absent (base and temporal scores complete)"),
           ({x: [ABSENT] for x in g["temporal"]}, "temporal metrics absent")]
    if C.tier() == "thorough":
        for t in g["temporal"]:
            for v in G.legal(g, t):
                if v == "X":
                    continue
                fx = {x: [ABSENT] for x in g["temporal"]}
                fx[t] = [v]
                out.append((fx, "only %s:%s of the temporal metrics defined" % (t, v)))
    return out


def task4_table(x):
    from . import mono4

    return mono4.task_table(x)


def task4_fork(digits, step_list, d4s=None):
    """one sampled v4 product run.  The v4 part of C14 is a SAMPLE of (fork, step) cases; a case the
    engine declines (a construct it does not support in pair mode, memory) is reported as a
    declined sample, not as an inconclusive check - main() requires most samples to be conclusive"""
    from pysymex.values import Unsupported

    from . import mono4

    try:
        return mono4.task_fork(digits, step_list, d4s)
    except (Unsupported, MemoryError) as e:
        return {"extra": {"v4_samples_declined": 1, "v4_samples_declined_why": ["%s %s: %s" % ("".join(str(d) for d in digits), step_list, str(e)[:160])]}}
    except Exception as e:  # noqa: BLE001
        if "out of memory" in repr(e):
            return {"extra": {"v4_samples_declined": 1, "v4_samples_declined_why": ["%s %s: solver out of memory" % ("".join(str(d) for d in digits), step_list)]}}
        raise


def main():
    chk = Check("C14")
    tasks = []
    for met, a, b in steps(2):
        for fx, note in configurations(2, met, a, b):
            tasks.append(("task", (2, None, met, a, b, fx)))
    restricted = set()
    for minor in ("0", "1"):
        for met, a, b in steps(3):
            for fx, note in configurations(3, met, a, b):
                tasks.append(("task", (3, minor, met, a, b, fx)))
                if note:
                    restricted.add("%s:%s->%s" % (met, a, b))
    from . import mono4

    # one pool for all versions (the v4 product runs are the longest tasks: they start first)
    tasks4 = [("task4_" + name[5:], args) for name, args in mono4.tasks()]
    results = C.run_named_tasks("harness.mono", tasks4 + tasks)
    for r in results:
        chk.absorb_dict(r)
    nsamp = sum(1 for name, _ in tasks4 if name == "task4_fork")
    ndecl = int(chk.extra.get("v4_samples_declined", 0))
    chk.extra["v4_samples"] = "%d drawn, %d conclusive, %d declined by the engine" % (nsamp, nsamp - ndecl, ndecl)
    if nsamp and ndecl * 2 > nsamp:
        chk.inconclusive.append("v4: %d of %d sampled product runs were declined by the engine" % (ndecl, nsamp))
    chk.input_model = ("M-ASSIGN in pair mode: per metric step (adjacent values in the standard's severity order) one run of the real constructor in which the stepped field is a pair leaf and all other metrics are solver variables; "
                       "v2: 20 steps (base, temporal); v3.0 / v3.1: 41 steps each (v3.0 environmental score exempt for impact and requirement metrics, as the property says); v4: see mono4")
    chk.bounds = ["v2: environmental metrics absent (only base and temporal scores are in the property)",
                  "v3: every step with all other 21 metrics symbolic (absent included), except the steps %s, which run in restricted configurations: "
                  "(i) environmental metrics absent, temporal metrics symbolic (base and temporal scores: complete), (ii) temporal metrics absent, environmental metrics symbolic%s"
                  % (", ".join(sorted(restricted)), "; (iii) exactly one temporal metric defined, environmental metrics symbolic" if C.tier() == "thorough" else "")] + mono4.bounds()
    chk.outside = mono4.outside() + ["v3 environmental score for the steps %s when %s temporal metrics AND environmental metrics are defined together (product run does not finish in this engine)" % (", ".join(sorted(restricted)), "two or more" if C.tier() == "thorough" else "any")]
    chk.assumptions = ["severity orders typed in harness/mono.py from the standards", "no oracle scores are used: only the implementation's own scores on the two sides are compared"]
    C.finish(chk)


if __name__ == "__main__":
    main()
