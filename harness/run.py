"""dispatch: python -m harness.run <property id>"""
import sys


def main():
    pid = sys.argv[1]
    if pid == "C01":
        from . import scores

        scores.main("C01", 3)
    elif pid == "C03":
        from . import scores

        scores.main("C03", 2)
    elif pid == "C02":
        from . import score4

        score4.main("C02")
    elif pid == "C09":
        from . import c09

        c09.main()
    elif pid == "C07":
        from . import c07

        c07.main()
    elif pid == "C04":
        from . import c04

        c04.main()
    elif pid == "C15":
        from . import accessors

        accessors.main_c15()
    elif pid == "C12":
        from . import accessors

        accessors.main_c12()
    elif pid == "C18":
        from . import accessors

        accessors.main_c18()
    elif pid in ("C08", "C10", "C11"):
        from . import jsonprops

        getattr(jsonprops, "main_" + pid.lower())()
    elif pid == "C05":
        from . import relational

        relational.main_c05()
    elif pid == "C06":
        from . import relational

        relational.main_c06()
    elif pid == "C16":
        from . import interactive

        interactive.main()
    elif pid == "C17":
        from . import cli

        cli.main()
    elif pid == "C13":
        from . import textparse

        textparse.main()
    elif pid == "C19":
        from . import c19

        c19.main()
    elif pid == "C14":
        from . import mono

        mono.main()
    else:
        print("no check registered for %s" % pid)
        sys.exit(3)


if __name__ == "__main__":
    main()
