"""dispatch: python -m harness.run <property id>"""
import sys


def main():
    pid = sys.argv[1]
    if pid == "C01":
        from . import scores

        scores.main("C01", 3)
    elif pid == "C03":
        from . import scores

        scores.main("C03", 2)
    elif pid == "C02":
        from . import score4

        score4.main("C02")
    else:
        print("no check registered for %s" % pid)
        sys.exit(3)


if __name__ == "__main__":
    main()
