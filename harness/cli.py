"""
C17: the command-line calculator.  cvss_calculator.main() is executed symbolically with an
argparse recorder stub (flags are solver variables), print logged, json.dumps opaque, the
interactive builder replaced by its summary (returns a valid vector of the requested version or
raises EOFError / KeyboardInterrupt).  The real classes run on the -v text (a finite list of
valid vectors of every version and invalid texts).
"""

import json
import sys

from pysymex.interp import NativeHandler, UnwindCut

from . import common as C
from . import objects as O
from .common import ABSENT, G, U, Check, Cond, Obj, Opaque, Session, StructStr, SymDict, SymList, unsat_or_cex

VECTORS = [
    None,
    "",
    "AV:N/AC:L/Au:N/C:P/I:P/A:C/E:F/TD:H",
    "AV:L/AC:H/Au:M/C:N/I:N/A:N",
    "CVSS:3.0/AV:N/AC:L/PR:N/UI:R/S:C/C:H/I:L/A:N/E:P/MS:U",
    "CVSS:3.1/AV:N/AC:L/PR:N/UI:N/S:U/C:H/I:H/A:H",
    "CVSS:3.1/S:U/AV:L/AC:H/PR:H/UI:R/C:N/I:N/A:N/RL:O/CR:L",
    "CVSS:4.0/AV:N/AC:L/AT:N/PR:N/UI:N/VC:H/VI:H/VA:H/SC:N/SI:N/SA:N/E:P/MAV:A/U:Red",
    "CVSS:4.0/AV:P/AC:H/AT:P/PR:H/UI:A/VC:N/VI:N/VA:N/SC:N/SI:N/SA:N",
    "foo",
    "CVSS:3.1/AV:N",
    "CVSS:3.1/AV:N/AC:L/PR:N/UI:N/S:U/C:H/I:H/A:H/A:H",
    "CVSS:4.0/AV:N/AC:L",
    "AV:N/AC:L/Au:N/C:P/I:P",
    "CVSS:3.2/AV:N/AC:L/PR:N/UI:N/S:U/C:H/I:H/A:H",
    # texts that differ from a valid vector only by outer white space / a trailing separator: the
    # library rejects them, so the calculator must print the library's error message
    "CVSS:3.1/AV:N/AC:L/PR:N/UI:N/S:U/C:H/I:H/A:H ",
    " AV:N/AC:L/Au:N/C:P/I:P/A:C/E:F/TD:H",
    "CVSS:4.0/AV:P/AC:H/AT:P/PR:H/UI:A/VC:N/VI:N/VA:N/SC:N/SI:N/SA:N\t",
    "\nCVSS:3.0/AV:N/AC:L/PR:N/UI:R/S:C/C:H/I:L/A:N/E:P/MS:U",
    " ",
    "CVSS:3.1/AV:N/AC:L/PR:N/UI:N/S:U/C:H/I:H/A:H/",
]
INTERACTIVE_RESULT = {2: "AV:N/AC:L/Au:N/C:P/I:P/A:P", 3.0: "CVSS:3.0/AV:N/AC:L/PR:N/UI:N/S:U/C:H/I:H/A:H", 3.1: "CVSS:3.1/AV:N/AC:L/PR:N/UI:N/S:U/C:H/I:H/A:H", 4.0: "CVSS:4.0/AV:N/AC:L/AT:N/PR:N/UI:N/VC:H/VI:H/VA:H/SC:N/SI:N/SA:N"}
PAD = 24


def real_cvss():
    sys.path.insert(0, C.REPO)
    try:
        import importlib

        return importlib.import_module("cvss")
    finally:
        sys.path.pop(0)


def expected_output(cvss, version, vec, want_json):
    """the lines the property prescribes, from the real library API (None: error message)"""
    cls = {2: cvss.CVSS2, 3.0: cvss.CVSS3, 3.1: cvss.CVSS3, 4.0: cvss.CVSS4}[version]
    try:
        o = cls(vec)
    except cvss.CVSSError as e:
        return [str(e)]
    lines = ["CVSS%d" % int(version)]
    scores = o.scores()
    sev = o.severities() if version >= 3.0 else None
    names = ["Base Score", "Temporal Score", "Environmental Score"]
    for i, s in enumerate(scores):
        head = names[i] + ":" + " " * (PAD - len(names[i]) - 2)
        if version >= 3.0:
            lines.append(head + "%s (%s)" % (s, sev[i]))
        else:
            lines.append(head + "%s" % (s,))
    lines.append("Cleaned vector:        " + o.clean_vector())
    lines.append("Red Hat vector:        " + o.rh_vector())
    if want_json:
        lines.append("CVSS vector in JSON:")
        lines.append(("json", o.as_json(sort=True, minimal=True)))
    return lines


def render(sess, entry, asg):
    """text of one print() log entry under an assignment (None for a json document marker)"""
    pc, args, kwargs, modname = entry
    parts = []
    for a in args:
        a = sess.concretize(a, asg)
        if isinstance(a, Obj) and a.cls.is_exception():
            ea = a.attrs.get("args", ())
            ea = sess.concretize(ea, asg)
            a = ea[0] if len(ea) == 1 else (str(tuple(ea)) if ea else "")
        parts.append(a)
    sep = sess.concretize(kwargs.get("sep", " "), asg)
    end = sess.concretize(kwargs.get("end", "\n"), asg)
    return parts, sep, end


def task(dummy):
    chk = Check("C17")
    sess = Session(extra_roots=[C.ROOT + "/harness/stubs"])
    m, vc = sess.m, sess.vc
    it = sess.it
    cvss = real_cvss()
    flags = {k: m.new_var("flag_" + k, [False, True]) for k in ("2", "3", "4", "all", "no_colors", "json")}
    vecvar = m.new_var("vector", list(range(len(VECTORS))))
    outcome = m.new_var("interactive_outcome", ["vector", "EOFError", "KeyboardInterrupt"])
    seen_dests = []
    OPT = {"-2": "2", "-3": "3", "-4": "4", "-a": "all", "--all": "all", "-n": "no_colors", "--no-colors": "no_colors", "-j": "json", "--json": "json"}

    def flag_present(it_, args, kwargs, pc):
        opt = args[0]
        seen_dests.append(opt)
        if opt in ("-v", "--vector"):
            return vc.from_var(vecvar, lambda i: VECTORS[i] is not None)
        if opt in OPT:
            return vc.from_var(flags[OPT[opt]])
        raise C.Unsupported("unexpected command line option %r" % (opt,))

    def flag_argument(it_, args, kwargs, pc):
        opt = args[0]
        if opt in ("-v", "--vector"):
            return vc.from_var(vecvar, lambda i: VECTORS[i])
        raise C.Unsupported("unexpected command line option with an argument %r" % (opt,))

    # argparse stub module (interpreted) with the harness hooks
    stub = it.load_module("argparse")
    stub.globals["_flag_present"] = NativeHandler(flag_present, "_flag_present")
    stub.globals["_flag_argument"] = NativeHandler(flag_argument, "_flag_argument")
    it.stub_modules["argparse"] = stub
    mod = sess.load("cvss.cvss_calculator")
    C.set_epoch(1)
    sess.begin(mod)
    calls = []

    def ask(it_, args, kwargs, pc):
        calls.append((pc, list(args), dict(kwargs)))
        ver = args[0] if args else kwargs.get("version")
        out = []
        for g, v in vc.alts(ver):
            txt = INTERACTIVE_RESULT.get(v)
            if txt is None:
                it_.raise_exc(vc.c_andg(pc, g), ValueError("Unknown version: %r" % (v,)))
                continue
            out.append((g, txt))
        it_.raise_exc(vc.c_andg(pc, m.atom(outcome, "EOFError")), EOFError())
        it_.raise_exc(vc.c_andg(it_.live(it_.frames[-1], pc), m.atom(outcome, "KeyboardInterrupt")), KeyboardInterrupt())
        return vc.mk_union(out, sweep=False)

    mod.globals["ask_interactively"] = NativeHandler(ask, "ask_interactively[summary]")
    it.outputs = []

    def mk_replay(model, what):
        argv = []
        for k in ("2", "3", "4"):
            if model["flag_" + k]:
                argv.append("-" + k)
        if model["flag_all"]:
            argv.append("-a")
        if model["flag_no_colors"]:
            argv.append("-n")
        if model["flag_json"]:
            argv.append("-j")
        v = VECTORS[model["vector"]]
        if v is not None:
            argv += ["-v", v]
        return {"kind": "c17", "argv": argv, "interactive_outcome": model["interactive_outcome"], "what": what}

    res, raised = sess.call(mod.globals["main"], [])
    for cond, exc in raised:
        nm = type(exc).__name__ if isinstance(exc, BaseException) else exc.cls.name
        O.must_not(sess, chk, vc.c_any(cond), "an exception escapes main(): %s" % nm, mk_replay)
    log = list(it.outputs)
    # case analysis over (version selection, -v text, -j); -a, -n, interactive outcome stay symbolic
    sel = {
        None: m.and_all([m.atom(flags[k], False) for k in ("2", "3", "4")]),
        "2": m.and_all([m.atom(flags["2"], True), m.atom(flags["3"], False), m.atom(flags["4"], False)]),
        "3": m.and_all([m.atom(flags["2"], False), m.atom(flags["3"], True), m.atom(flags["4"], False)]),
        "4": m.and_all([m.atom(flags["2"], False), m.atom(flags["3"], False), m.atom(flags["4"], True)]),
    }
    vmap = {None: 3.1, "2": 2, "3": 3.0, "4": 4.0}
    ncases = 0
    for sk, sg in sel.items():
        version = vmap[sk]
        for vi, vtxt in enumerate(VECTORS):
            for jf in (False, True):
                for oc in ("vector", "EOFError", "KeyboardInterrupt"):
                    if vtxt is not None and oc != "vector":
                        continue
                    case = m.and_all([sg, m.atom(vecvar, vi), m.atom(flags["json"], jf), m.atom(outcome, oc)])
                    if vtxt is None:
                        if oc == "vector":
                            exp = expected_output(cvss, version, INTERACTIVE_RESULT[version], jf)
                        else:
                            exp = [""]  # clean end: just a newline
                    else:
                        exp = expected_output(cvss, version, vtxt, jf)
                    ncases += 1
                    check_case(sess, chk, log, case, exp, "version=%s -v %r%s%s" % (version, vtxt, " -j" if jf else "", "" if oc == "vector" else " [" + oc + " during interactive entry]"), mk_replay)
    # the interactive builder is called with the selected version and the -a / -n flags
    for pc, args, kwargs in calls:
        if len(args) != 3:
            O.must_not(sess, chk, vc.c_any(pc), "ask_interactively called with %d arguments" % len(args), mk_replay)
            continue
        for sk, sg in sel.items():
            O.must_not(sess, chk, m.AND(m.AND(vc.c_any(pc), sg), m.NOT(vc.guard_eq(args[0], vmap[sk]))), "interactive entry asks for version %s when the flags select it" % vmap[sk], mk_replay)
        O.must_hold(sess, chk, m.OR(m.NOT(vc.c_any(pc)), O.eq_cond(sess, args[1], vc.from_var(flags["all"])).l), "interactive entry receives the -a flag", mk_replay)
        O.must_hold(sess, chk, m.OR(m.NOT(vc.c_any(pc)), O.eq_cond(sess, args[2], vc.from_var(flags["no_colors"])).l), "interactive entry receives the -n flag", mk_replay)
        # interactive entry happens exactly when no -v text was given
        O.must_not(sess, chk, m.XOR(vc.c_any(pc), m.atom(vecvar, 0)), "interactive entry exactly when -v is absent", mk_replay)
    chk.extra["cases"] = ncases
    chk.extra["print_calls_logged"] = len(log)
    chk.extra["argparse_dests_in_order"] = seen_dests
    chk.witnesses.append({"argv": mk_replay(m.pattern_assignment(0), "")["argv"]})
    chk.absorb(sess)
    return chk.to_dict()


def check_case(sess, chk, log, case, exp, label, mk_replay):
    """under `case` the print log is exactly the expected lines"""
    m, vc = sess.m, sess.vc
    if m.is_sat(case, "vacuity") is not True:
        return
    asg_model = None
    # which log entries can be there under this case
    lines = []
    cur = []
    for entry in log:
        pc = vc.c_any(entry[0])
        both = m.AND(case, pc)
        if m.is_sat(both, "branch") is False:
            continue
        # present for every assignment of the case?
        O.must_not(sess, chk, m.AND(case, m.NOT(pc)), "%s: every print of this case happens for all -a/-n settings" % label, mk_replay)
        lines.append(entry)
    # render with one model of the case
    st, model = m.verdict_unsat(case, "vacuity")
    if model is None:
        return
    text = ""
    docs = []
    for entry in lines:
        parts, sep, end = render(sess, entry, model)
        segs = []
        for p in parts:
            if isinstance(p, tuple) and p and isinstance(p[0], str) and p[0].startswith("<opaque json"):
                segs.append("\x00JSON\x00")
            else:
                segs.append(str(p))
        text += sep.join(segs) + end
        for a in entry[1]:
            if isinstance(a, Opaque) and a.kind == "json":
                docs.append((a.args[0], dict(a.args[1])))
    want = ""
    wdocs = []
    for l in exp:
        if isinstance(l, tuple):
            want += "\x00JSON\x00\n"
            wdocs.append(l[1])
        else:
            want += l + "\n"
    ok = text == want
    if ok:
        for (d, kw), wd in zip(docs, wdocs):
            cd = sess.concretize(d, model)
            if list(cd.items()) != list(wd.items()) or kw.get("indent") != 2:
                ok = False
    if len(docs) != len(wdocs):
        ok = False
    if ok:
        chk.add_vc("%s: output equals the lines the library API prescribes" % label, "unsat", 0, 0, trivial=True)
    else:
        chk.add_vc("%s: output equals the lines the library API prescribes" % label, "sat", 0, 0, detail={"got": text[:300], "want": want[:300]})
        if len(chk.counterexamples) < 4:
            chk.counterexamples.append({"vc": label, "replay": mk_replay(model, "output differs: got %r want %r" % (text[:200], want[:200]))})


def main():
    chk = Check("C17")
    for r in C.run_named_tasks("harness.cli", [("task", (0,))]):
        chk.absorb_dict(r)
    chk.input_model = ("M-CLI: flags -2 -3 -4 -a -n -j as Boolean solver variables, -v absent or one of %d texts (valid vectors of every version, invalid ones, the empty string); interactive entry summarised as "
                       "'returns a valid vector of the requested version | EOFError | KeyboardInterrupt'" % (len(VECTORS) - 1))
    chk.bounds = ["-v texts from a finite list; at most one of -2/-3/-4 in the output comparison (with several the property does not say which wins; the no-exception verdict covers all combinations)"]
    chk.stubs = ["argparse: recorder stub keeping add_argument order (harness/stubs/argparse.py)", "print: logged", "json.dumps: opaque function of its argument (argument and indent compared)", "ask_interactively: summary (C16 checks the builder itself)"]
    chk.assumptions = ["process-level behaviour (exit status, real stdout) is exercised only by the replay, which runs the real program"]
    C.finish(chk)


if __name__ == "__main__":
    main()
