"""
Concrete replay of a counterexample against the real library (run under /venv/bin/python with
PYTHONPATH=/repo:/verif).  Prints one JSON line {"violates": true|false, ...}.
"""

import json
import sys
from fractions import Fraction


def frac_of_score(v):
    if v is None:
        return None
    if isinstance(v, bool) or not isinstance(v, float):
        return ("not-a-float", repr(v))
    try:
        return Fraction(repr(v))
    except ValueError:
        return ("not-finite", repr(v))


def r_scores(p):
    import cvss
    from spec import grammar

    version = p["version"]
    vec = p["vector"]
    cls = getattr(cvss, "CVSS%d" % version)
    try:
        real = tuple(cls(vec).scores())
    except Exception as e:  # noqa: BLE001
        return {"violates": True, "what": "constructor/scores raised %s: %s" % (type(e).__name__, e), "vector": vec}
    m, minor = grammar.parse(version, vec)
    full = {k: m.get(k) for k in grammar.metric_names(grammar.GRAMMARS[version])}
    if version == 3:
        from spec import cvss3_spec

        exp = cvss3_spec.scores(full, minor)
    elif version == 2:
        from spec import cvss2_spec

        exp = cvss2_spec.scores(full)
    else:
        from spec import cvss4_spec

        exp = (cvss4_spec.score(full),)
    got = tuple(frac_of_score(x) for x in real)
    exp = tuple(None if x is None else Fraction(x) for x in exp)
    return {
        "violates": got != exp,
        "vector": vec,
        "library": [repr(x) for x in real],
        "specification": [None if x is None else str(float(x)) for x in exp],
    }


def r_constructs(p):
    import cvss

    cls = getattr(cvss, "CVSS%d" % p["version"])
    try:
        cls(p["vector"])
    except Exception as e:  # noqa: BLE001
        return {"violates": True, "what": "valid vector rejected / raised %s: %s" % (type(e).__name__, e), "vector": p["vector"]}
    return {"violates": False, "vector": p["vector"]}


HANDLERS = {"scores": r_scores, "constructs": r_constructs}


def main():
    with open(sys.argv[1]) as f:
        p = json.load(f)
    kind = p.get("kind")
    if kind not in HANDLERS:
        try:
            from harness import replay_more

            h = replay_more.HANDLERS.get(kind)
        except ImportError:
            h = None
    else:
        h = HANDLERS[kind]
    if h is None:
        print(json.dumps({"violates": None, "error": "unknown replay kind %r" % kind}))
        return
    try:
        res = h(p)
    except Exception as e:  # noqa: BLE001
        import traceback

        res = {"violates": None, "error": "%r" % (e,), "trace": traceback.format_exc()[-1500:]}
    print(json.dumps(res, default=str))


if __name__ == "__main__":
    main()
