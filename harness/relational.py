"""
C05 (Not-Defined spelling part) and C06 for v2/v3 by *two related runs*: object A is built from
the M-ASSIGN variables, object B from a vector derived from the same variables by the
substitution under test (applied to an arbitrary subset of the eligible metrics: one selector
variable per metric).  Both constructors run for real in one solver session; sweeping absorbs the
difference at the lowest level and the solver decides every output comparison.
"""

import sys

from pysymex import structstr as SS

from . import common as C
from . import objects as O
from .common import ABSENT, G, U, Check, Cond, Session, StructStr, SymDict, SymList, unsat_or_cex
from .scores import split_tasks

ND = {2: "ND", 3: "X", 4: "X"}

EQUIV = {
    2: {"E": "H", "RL": "U", "RC": "C", "CDP": "N", "TD": "H", "CR": "M", "IR": "M", "AR": "M"},
    3: {"E": "H", "RL": "U", "RC": "C", "CR": "M", "IR": "M", "AR": "M"},
    4: {"E": "A", "CR": "H", "IR": "H", "AR": "H"},
}
MODIFIED3 = ["MAV", "MAC", "MPR", "MUI", "MS", "MC", "MI", "MA"]


class Written(object):
    """what object B's vector says about one metric: presence guard and text union"""

    def __init__(self, pres, val):
        self.pres = pres
        self.val = val


def written_from_var(sess, met, var):
    m, vc = sess.m, sess.vc
    pairs = [(m.atom(var, lab), met + ":" + lab) for lab in var.domain if lab is not ABSENT]
    pres = m.NOT(m.atom_opt(var, ABSENT)) if ABSENT in var.index else m.TRUE
    return Written(pres, vc.mk_union(pairs, sweep=False))


def vector_from_written(sess, version, vars_, written):
    m, vc = sess.m, sess.vc
    chunks = []
    if version == 3:
        chunks.append((m.TRUE, vc.from_var(vars_["minor"], lambda lab: "CVSS:3." + lab)))
    elif version == 4:
        chunks.append((m.TRUE, "CVSS:4.0"))
    for met, _ in G.GRAMMARS[version]["metrics"]:
        w = written[met]
        chunks.append((w.pres, w.val))
    return StructStr("/", chunks)


def undefined_guard(sess, version, var):
    m = sess.m
    return m.or_all([m.atom(var, lab) for lab in var.domain if lab is ABSENT or lab == ND[version]])


def sub_nd_spelling(sess, version, vars_, met, sel):
    """C05: ABSENT <-> explicit Not Defined"""
    m, vc = sess.m, sess.vc
    var = vars_[met]
    t = m.atom(sel, 1)
    nt = m.atom(sel, 0)
    ab = m.atom_opt(var, ABSENT)
    nd = m.atom_opt(var, ND[version])
    pres = m.OR(m.AND(ab, t), m.AND(m.NOT(ab), m.NOT(m.AND(nd, t))))
    pairs = []
    for lab in var.domain:
        if lab is ABSENT or lab == ND[version]:
            continue
        pairs.append((m.atom(var, lab), met + ":" + lab))
    pairs.append((m.OR(m.AND(nd, nt), m.AND(ab, t)), met + ":" + ND[version]))
    # when absent in B the text is irrelevant; give the remaining region an arbitrary label
    rest = m.NOT(m.or_all([g for g, _ in pairs]))
    pairs.append((rest, met + ":" + ND[version]))
    return Written(pres, vc.mk_union(pairs, sweep=False))


def sub_set_value(sess, version, vars_, met, sel, value_union):
    """where the metric is undefined in A and the selector is on, B writes value_union
    (a union of value labels, e.g. the base metric's value or the equivalent constant)"""
    m, vc = sess.m, sess.vc
    var = vars_[met]
    t = m.atom(sel, 1)
    und = undefined_guard(sess, version, var)
    act = m.AND(t, und)
    ab = m.atom_opt(var, ABSENT)
    pres = m.OR(act, m.NOT(ab))
    pairs = []
    for lab in var.domain:
        if lab is ABSENT:
            continue
        pairs.append((m.AND(m.atom(var, lab), m.NOT(act)), met + ":" + lab))
    for g, lab in vc.alts(value_union):
        pairs.append((m.AND(act, g), met + ":" + lab))
    rest = m.NOT(m.or_all([g for g, _ in pairs]))
    pairs.append((rest, met + ":" + ND[version]))
    return Written(pres, vc.mk_union(pairs, sweep=False))


def sub_free_when(sess, version, vars_, met, other_var, cond):
    """where cond holds B writes other_var's value for the metric, else A's"""
    m, vc = sess.m, sess.vc
    var = vars_[met]
    pairs = []
    for lab in var.domain:
        if lab is ABSENT:
            continue
        pairs.append((m.AND(m.NOT(cond), m.atom(var, lab)), met + ":" + lab))
    for lab in other_var.domain:
        if lab is ABSENT:
            continue
        pairs.append((m.AND(cond, m.atom(other_var, lab)), met + ":" + lab))
    pa = m.NOT(m.atom_opt(var, ABSENT)) if ABSENT in var.index else m.TRUE
    pb = m.NOT(m.atom_opt(other_var, ABSENT)) if ABSENT in other_var.index else m.TRUE
    pres = m.OR(m.AND(m.NOT(cond), pa), m.AND(cond, pb))
    rest = m.NOT(m.or_all([g for g, _ in pairs]))
    pairs.append((rest, met + ":" + ND[version]))
    return Written(pres, vc.mk_union(pairs, sweep=False))


def value_labels(sess, var):
    """union of the value labels of a (mandatory) metric variable"""
    return sess.vc.from_var(var)


def compare_defined(sess, chk, label, a, b, mk_replay, only_where_defined=True):
    """per value v (not None): A reports v  =>  B reports v"""
    m, vc = sess.m, sess.vc
    gb = {}
    for g, leaf in vc.alts(b):
        gb.setdefault(repr(leaf), []).append(g)
    for g, leaf in vc.alts(a):
        if leaf is None and only_where_defined:
            continue
        other = m.or_all(gb.get(repr(leaf), []))
        O.must_not(sess, chk, m.AND(g, m.NOT(other)), "%s = %r in A but not in B" % (label, leaf), mk_replay)


def run_pair(sess, chk, version, vars_, written_b, label, mk_replay, obj_a=None):
    mod = sess.load("cvss")
    cls = mod.globals["CVSS%d" % version]
    vecb = vector_from_written(sess, version, vars_, written_b)
    objb, raised = sess.call(cls, [vecb])
    for cond, exc in raised:
        nm = type(exc).__name__ if isinstance(exc, BaseException) else exc.cls.name
        O.must_not(sess, chk, sess.vc.c_any(cond), "%s: constructor of the related vector raises %s" % (label, nm), mk_replay)
    return objb, vecb


def task(version, fixed, label, which):
    chk = Check(which)
    sess = Session()
    vars_ = sess.assign_vars(version, fixed=fixed)
    m, vc = sess.m, sess.vc
    g_ = G.GRAMMARS[version]
    optional = [met for met, _ in g_["metrics"] if met not in g_["mandatory"]]
    current = {}

    def mk_replay(model, what):
        wb = current["written"]
        vb = current["vars_b"]
        va = sess.vector_string(version, model)
        parts = []
        if version == 3:
            parts.append("CVSS:3." + model["minor"])
        for met, _ in g_["metrics"]:
            w = wb[met]
            if m.eval_nodes([w.pres], model)[0]:
                parts.append(sess.concretize(w.val, model))
        return {"kind": "relational", "property": which, "clause": current["clause"], "version": version, "a": va, "b": "/".join(parts), "what": what, "compare": current["compare"]}

    obj, vec, mod = O.make_object(sess, chk, version, vars_, label)
    sa = O.items_of(O.call_ok(sess, chk, obj, "scores", label=label))
    base_written = {met: written_from_var(sess, met, vars_[met]) for met, _ in g_["metrics"]}

    def selectors(names, tag):
        return {met: m.new_var("sel_%s_%s" % (tag, met), [0, 1]) for met in names}

    if which == "C05":
        sel = selectors(optional, "nd")
        wb = dict(base_written)
        for met in optional:
            wb[met] = sub_nd_spelling(sess, version, vars_, met, sel[met])
        current.update(written=wb, vars_b=None, clause="nd-spelling", compare="all")
        objb, vecb = run_pair(sess, chk, version, vars_, wb, label, mk_replay)
        sb = O.items_of(O.call_ok(sess, chk, objb, "scores", label=label))
        names = ["base", "temporal", "environmental"]
        for i, (x, y) in enumerate(zip(sa, sb)):
            O.must_hold(sess, chk, O.eq_cond(sess, x, y), "%s: %s score unchanged by spelling out / omitting Not Defined" % (label, names[i]), mk_replay)
        for acc in ["severities", "clean_vector", "rh_vector", "temporal_vector", "environmental_vector"]:
            ra = O.call_ok(sess, chk, obj, acc, label=label)
            rb = O.call_ok(sess, chk, objb, acc, label=label)
            if isinstance(ra, SymList) or isinstance(ra, tuple):
                for i, (x, y) in enumerate(zip(O.items_of(ra), O.items_of(rb))):
                    O.must_hold(sess, chk, O.eq_cond(sess, x, y), "%s: %s()[%d] unchanged by Not-Defined spelling" % (label, acc, i), mk_replay)
            else:
                O.must_hold(sess, chk, O.eq_cond(sess, ra, rb), "%s: %s() unchanged by Not-Defined spelling" % (label, acc), mk_replay)
        O.must_hold(sess, chk, O.eq_cond(sess, obj, objb), "%s: objects equal across Not-Defined spellings" % label, mk_replay)
        ha = O.call_ok(sess, chk, obj, "__hash__", label=label)
        hb = O.call_ok(sess, chk, objb, "__hash__", label=label)
        O.must_hold(sess, chk, O.eq_cond(sess, ha, hb), "%s: hash equal across Not-Defined spellings" % label, mk_replay)
    else:
        names = ["base", "temporal", "environmental"]
        # (a)+(b): undefined modified metric := base value; undefined metric := equivalent value
        wb = dict(base_written)
        elig = []
        if version == 3:
            sel_a = selectors(MODIFIED3, "a")
            for met in MODIFIED3:
                wb[met] = sub_set_value(sess, version, vars_, met, sel_a[met], value_labels(sess, vars_[met[1:]]))
        sel_b = selectors(list(EQUIV[version]), "b")
        for met, eqv in EQUIV[version].items():
            wb[met] = sub_set_value(sess, version, vars_, met, sel_b[met], eqv)
        current.update(written=wb, vars_b=None, clause="a+b", compare="defined")
        objb, vecb = run_pair(sess, chk, version, vars_, wb, label + " (a)(b)", mk_replay)
        sb = O.items_of(O.call_ok(sess, chk, objb, "scores", label=label))
        for i, (x, y) in enumerate(zip(sa, sb)):
            compare_defined(sess, chk, "%s (a)(b): %s score" % (label, names[i]), x, y, mk_replay)
        # (d): base metric overridden by a defined modified metric (v3 environmental score)
        if version == 3:
            wb = dict(base_written)
            vb = {}
            for met in MODIFIED3:
                base = met[1:]
                vb[base] = m.new_var("d." + base, list(vars_[base].domain) if base not in fixed else list(G.legal(g_, base)))
                cond = m.NOT(undefined_guard(sess, version, vars_[met]))
                wb[base] = sub_free_when(sess, version, vars_, base, vb[base], cond)
            current.update(written=wb, vars_b=vb, clause="d", compare="environmental")
            objb, vecb = run_pair(sess, chk, version, vars_, wb, label + " (d)", mk_replay)
            sb = O.items_of(O.call_ok(sess, chk, objb, "scores", label=label))
            O.must_hold(sess, chk, O.eq_cond(sess, sa[2], sb[2]), "%s (d): environmental score independent of overridden base metrics" % label, mk_replay)
        # (e): temporal and environmental metrics do not change the base score; environmental
        # metrics do not change the temporal score
        tnames = g_["temporal"]
        enames = g_["environmental"]
        wb = dict(base_written)
        for met in tnames + enames:
            ov = m.new_var("e1." + met, list(vars_[met].domain) if met not in fixed else [ABSENT] + list(G.legal(g_, met)))
            wb[met] = sub_free_when(sess, version, vars_, met, ov, m.TRUE)
        current.update(written=wb, vars_b=None, clause="e-base", compare="base")
        objb, vecb = run_pair(sess, chk, version, vars_, wb, label + " (e)", mk_replay)
        sb = O.items_of(O.call_ok(sess, chk, objb, "scores", label=label))
        O.must_hold(sess, chk, O.eq_cond(sess, sa[0], sb[0]), "%s (e): base score independent of temporal and environmental metrics" % label, mk_replay)
        wb = dict(base_written)
        for met in enames:
            ov = m.new_var("e2." + met, list(vars_[met].domain) if met not in fixed else [ABSENT] + list(G.legal(g_, met)))
            wb[met] = sub_free_when(sess, version, vars_, met, ov, m.TRUE)
        current.update(written=wb, vars_b=None, clause="e-temporal", compare="temporal")
        objb, vecb = run_pair(sess, chk, version, vars_, wb, label + " (e')", mk_replay)
        sb = O.items_of(O.call_ok(sess, chk, objb, "scores", label=label))
        O.must_hold(sess, chk, O.eq_cond(sess, sa[1], sb[1]), "%s (e): temporal score independent of environmental metrics" % label, mk_replay)
        O.must_hold(sess, chk, O.eq_cond(sess, sa[0], sb[0]), "%s (e): base score independent of environmental metrics" % label, mk_replay)
    w = m.pattern_assignment(0)
    chk.witnesses.append({"task": label, "a": sess.vector_string(version, w)})
    chk.absorb(sess)
    return chk.to_dict()
