"""
C05 (Not-Defined spelling part) and C06 for v2/v3 by *two related runs*: object A is built from
the M-ASSIGN variables, object B from a vector derived from the same variables by the
substitution under test (applied to an arbitrary subset of the eligible metrics: one selector
variable per metric).  Both constructors run for real in one solver session; sweeping absorbs the
difference at the lowest level and the solver decides every output comparison.
"""

import os
import sys

from pysymex import structstr as SS

from . import common as C
from . import objects as O
from .common import ABSENT, G, U, Check, Cond, Session, StructStr, SymDict, SymList, unsat_or_cex
from .scores import split_tasks

ND = {2: "ND", 3: "X", 4: "X"}

EQUIV = {
    2: {"E": "H", "RL": "U", "RC": "C", "CDP": "N", "TD": "H", "CR": "M", "IR": "M", "AR": "M"},
    3: {"E": "H", "RL": "U", "RC": "C", "CR": "M", "IR": "M", "AR": "M"},
    4: {"E": "A", "CR": "H", "IR": "H", "AR": "H"},
}
MODIFIED3 = ["MAV", "MAC", "MPR", "MUI", "MS", "MC", "MI", "MA"]


class Written(object):
    """what object B's vector says about one metric: presence guard and text union"""

    def __init__(self, pres, val):
        self.pres = pres
        self.val = val


def written_from_var(sess, met, var):
    m, vc = sess.m, sess.vc
    pairs = [(m.atom(var, lab), met + ":" + lab) for lab in var.domain if lab is not ABSENT]
    pres = m.NOT(m.atom_opt(var, ABSENT)) if ABSENT in var.index else m.TRUE
    return Written(pres, vc.mk_union(pairs, sweep=False))


def vector_from_written(sess, version, vars_, written):
    m, vc = sess.m, sess.vc
    chunks = []
    if version == 3:
        chunks.append((m.TRUE, vc.from_var(vars_["minor"], lambda lab: "CVSS:3." + lab)))
    elif version == 4:
        chunks.append((m.TRUE, "CVSS:4.0"))
    for met, _ in G.GRAMMARS[version]["metrics"]:
        w = written[met]
        chunks.append((w.pres, w.val))
    return StructStr("/", chunks)


def undefined_guard(sess, version, var):
    m = sess.m
    return m.or_all([m.atom(var, lab) for lab in var.domain if lab is ABSENT or lab == ND[version]])


def sub_nd_spelling(sess, version, vars_, met, sel):
    """C05: ABSENT <-> explicit Not Defined"""
    m, vc = sess.m, sess.vc
    var = vars_[met]
    t = m.atom(sel, 1)
    nt = m.atom(sel, 0)
    ab = m.atom_opt(var, ABSENT)
    nd = m.atom_opt(var, ND[version])
    pres = m.OR(m.AND(ab, t), m.AND(m.NOT(ab), m.NOT(m.AND(nd, t))))
    pairs = []
    for lab in var.domain:
        if lab is ABSENT or lab == ND[version]:
            continue
        pairs.append((m.atom(var, lab), met + ":" + lab))
    pairs.append((m.OR(m.AND(nd, nt), m.AND(ab, t)), met + ":" + ND[version]))
    # when absent in B the text is irrelevant; give the remaining region an arbitrary label
    rest = m.NOT(m.or_all([g for g, _ in pairs]))
    pairs.append((rest, met + ":" + ND[version]))
    return Written(pres, vc.mk_union(pairs, sweep=False))


def sub_set_value(sess, version, vars_, met, sel, value_union):
    """where the metric is undefined in A and the selector is on, B writes value_union
    (a union of value labels, e.g. the base metric's value or the equivalent constant)"""
    m, vc = sess.m, sess.vc
    var = vars_[met]
    t = m.atom(sel, 1)
    und = undefined_guard(sess, version, var)
    act = m.AND(t, und)
    ab = m.atom_opt(var, ABSENT)
    pres = m.OR(act, m.NOT(ab))
    pairs = []
    for lab in var.domain:
        if lab is ABSENT:
            continue
        pairs.append((m.AND(m.atom(var, lab), m.NOT(act)), met + ":" + lab))
    for g, lab in vc.alts(value_union):
        pairs.append((m.AND(act, g), met + ":" + lab))
    rest = m.NOT(m.or_all([g for g, _ in pairs]))
    pairs.append((rest, met + ":" + ND[version]))
    return Written(pres, vc.mk_union(pairs, sweep=False))


def sub_free_when(sess, version, vars_, met, other_var, cond):
    """where cond holds B writes other_var's value for the metric, else A's"""
    m, vc = sess.m, sess.vc
    var = vars_[met]
    pairs = []
    for lab in var.domain:
        if lab is ABSENT:
            continue
        pairs.append((m.AND(m.NOT(cond), m.atom(var, lab)), met + ":" + lab))
    for lab in other_var.domain:
        if lab is ABSENT:
            continue
        pairs.append((m.AND(cond, m.atom(other_var, lab)), met + ":" + lab))
    pa = m.NOT(m.atom_opt(var, ABSENT)) if ABSENT in var.index else m.TRUE
    pb = m.NOT(m.atom_opt(other_var, ABSENT)) if ABSENT in other_var.index else m.TRUE
    pres = m.OR(m.AND(m.NOT(cond), pa), m.AND(cond, pb))
    rest = m.NOT(m.or_all([g for g, _ in pairs]))
    pairs.append((rest, met + ":" + ND[version]))
    return Written(pres, vc.mk_union(pairs, sweep=False))


def value_labels(sess, var):
    """union of the value labels of a (mandatory) metric variable"""
    return sess.vc.from_var(var)


def compare_defined(sess, chk, label, a, b, mk_replay, only_where_defined=True):
    """per value v (not None): A reports v  =>  B reports v"""
    m, vc = sess.m, sess.vc
    gb = {}
    for g, leaf in vc.alts(b):
        gb.setdefault(repr(leaf), []).append(g)
    for g, leaf in vc.alts(a):
        if leaf is None and only_where_defined:
            continue
        other = m.or_all(gb.get(repr(leaf), []))
        O.must_not(sess, chk, m.AND(g, m.NOT(other)), "%s = %r in A but not in B" % (label, leaf), mk_replay)


def run_pair(sess, chk, version, vars_, written_b, label, mk_replay, obj_a=None):
    if sess.m.verbose:
        import time as _t
        sys.stderr.write("[relational %s t=%.1f nodes=%d]\n" % (label, _t.time() - sess.t0, len(sess.m.nodes)))
    mod = sess.load("cvss")
    cls = mod.globals["CVSS%d" % version]
    vecb = vector_from_written(sess, version, vars_, written_b)
    objb, raised = sess.call(cls, [vecb])
    for cond, exc in raised:
        nm = type(exc).__name__ if isinstance(exc, BaseException) else exc.cls.name
        O.must_not(sess, chk, sess.vc.c_any(cond), "%s: constructor of the related vector raises %s" % (label, nm), mk_replay)
    return objb, vecb


def task(version, fixed, label, which):
    chk = Check(which)
    sess = Session()
    vars_ = sess.assign_vars(version, fixed=fixed)
    m, vc = sess.m, sess.vc
    g_ = G.GRAMMARS[version]
    optional = [met for met, _ in g_["metrics"] if met not in g_["mandatory"]]
    current = {}

    def mk_replay(model, what):
        wb = current["written"]
        vb = current["vars_b"]
        va = sess.vector_string(version, model)
        parts = []
        if version == 3:
            parts.append("CVSS:3." + model["minor"])
        for met, _ in g_["metrics"]:
            w = wb[met]
            if m.eval_nodes([w.pres], model)[0]:
                parts.append(sess.concretize(w.val, model))
        return {"kind": "relational", "property": which, "clause": current["clause"], "version": version, "a": va, "b": "/".join(parts), "what": what, "compare": current["compare"]}

    obj, vec, mod = O.make_object(sess, chk, version, vars_, label)
    sa = O.items_of(O.call_ok(sess, chk, obj, "scores", label=label))
    base_written = {met: written_from_var(sess, met, vars_[met]) for met, _ in g_["metrics"]}

    def selectors(names, tag):
        return {met: m.new_var("sel_%s_%s" % (tag, met), [0, 1]) for met in names}

    if which == "C05":
        sel = selectors(optional, "nd")
        wb = dict(base_written)
        for met in optional:
            wb[met] = sub_nd_spelling(sess, version, vars_, met, sel[met])
        current.update(written=wb, vars_b=None, clause="nd-spelling", compare="all")
        objb, vecb = run_pair(sess, chk, version, vars_, wb, label, mk_replay)
        sb = O.items_of(O.call_ok(sess, chk, objb, "scores", label=label))
        names = ["base", "temporal", "environmental"]
        for i, (x, y) in enumerate(zip(sa, sb)):
            O.must_hold(sess, chk, O.eq_cond(sess, x, y), "%s: %s score unchanged by spelling out / omitting Not Defined" % (label, names[i]), mk_replay)
        for acc in ["severities", "clean_vector", "rh_vector", "temporal_vector", "environmental_vector"]:
            ra = O.call_ok(sess, chk, obj, acc, label=label)
            rb = O.call_ok(sess, chk, objb, acc, label=label)
            if isinstance(ra, SymList) or isinstance(ra, tuple):
                for i, (x, y) in enumerate(zip(O.items_of(ra), O.items_of(rb))):
                    O.must_hold(sess, chk, O.eq_cond(sess, x, y), "%s: %s()[%d] unchanged by Not-Defined spelling" % (label, acc, i), mk_replay)
            else:
                O.must_hold(sess, chk, O.eq_cond(sess, ra, rb), "%s: %s() unchanged by Not-Defined spelling" % (label, acc), mk_replay)
        O.must_hold(sess, chk, O.eq_cond(sess, obj, objb), "%s: objects equal across Not-Defined spellings" % label, mk_replay)
        ha = O.call_ok(sess, chk, obj, "__hash__", label=label)
        hb = O.call_ok(sess, chk, objb, "__hash__", label=label)
        O.must_hold(sess, chk, O.eq_cond(sess, ha, hb), "%s: hash equal across Not-Defined spellings" % label, mk_replay)
    else:
        names = ["base", "temporal", "environmental"]
        # (a)+(b): undefined modified metric := base value; undefined metric := equivalent value
        wb = dict(base_written)
        elig = []
        if version == 3:
            sel_a = selectors(MODIFIED3, "a")
            for met in MODIFIED3:
                wb[met] = sub_set_value(sess, version, vars_, met, sel_a[met], value_labels(sess, vars_[met[1:]]))
        sel_b = selectors(list(EQUIV[version]), "b")
        for met, eqv in EQUIV[version].items():
            wb[met] = sub_set_value(sess, version, vars_, met, sel_b[met], eqv)
        current.update(written=wb, vars_b=None, clause="a+b", compare="defined")
        objb, vecb = run_pair(sess, chk, version, vars_, wb, label + " (a)(b)", mk_replay)
        sb = O.items_of(O.call_ok(sess, chk, objb, "scores", label=label))
        for i, (x, y) in enumerate(zip(sa, sb)):
            compare_defined(sess, chk, "%s (a)(b): %s score" % (label, names[i]), x, y, mk_replay)
        # (d): base metric overridden by a defined modified metric (v3 environmental score)
        if version == 3:
            wb = dict(base_written)
            vb = {}
            for met in MODIFIED3:
                base = met[1:]
                vb[base] = m.new_var("d." + base, list(vars_[base].domain) if base not in fixed else list(G.legal(g_, base)))
                cond = m.NOT(undefined_guard(sess, version, vars_[met]))
                wb[base] = sub_free_when(sess, version, vars_, base, vb[base], cond)
            current.update(written=wb, vars_b=vb, clause="d", compare="environmental")
            objb, vecb = run_pair(sess, chk, version, vars_, wb, label + " (d)", mk_replay)
            sb = O.items_of(O.call_ok(sess, chk, objb, "scores", label=label))
            O.must_hold(sess, chk, O.eq_cond(sess, sa[2], sb[2]), "%s (d): environmental score independent of overridden base metrics" % label, mk_replay)
        # (e): temporal and environmental metrics do not change the base score; environmental
        # metrics do not change the temporal score.  First the cheap, sufficient argument: the
        # swept guards of the score do not mention those variables at all (syntactic support).
        # Only if they do is the relation decided by a second run with independent variables.
        tnames = g_["temporal"]
        enames = g_["environmental"]

        def support_of(v):
            return m.support([g for g, _ in vc.alts(v)])

        def second_run(names, tag, slot, what):
            wb = dict(base_written)
            for met in names:
                ov = m.new_var("%s.%s" % (tag, met), list(vars_[met].domain) if met not in fixed else [ABSENT] + list(G.legal(g_, met)))
                wb[met] = sub_free_when(sess, version, vars_, met, ov, m.TRUE)
            current.update(written=wb, vars_b=None, clause=tag, compare=["base", "temporal", "environmental"][slot])
            objb, vecb = run_pair(sess, chk, version, vars_, wb, label + " (e)", mk_replay)
            sb = O.items_of(O.call_ok(sess, chk, objb, "scores", label=label))
            O.must_hold(sess, chk, O.eq_cond(sess, sa[slot], sb[slot]), what, mk_replay)

        for slot, names, what in ((0, tnames + enames, "%s (e): base score independent of temporal and environmental metrics" % label),
                                  (1, enames, "%s (e): temporal score independent of environmental metrics" % label)):
            dep = sorted(set(vars_[x].name for x in names) & support_of(sa[slot]))
            if not dep:
                chk.add_vc(what + " [no such variable in the support of the swept score guards]", "unsat", 0, 0, trivial=True)
            else:
                second_run(names, "e%d" % slot, slot, what)
    w = m.pattern_assignment(0)
    chk.witnesses.append({"task": label, "a": sess.vector_string(version, w)})
    chk.absorb(sess)
    return chk.to_dict()


def task_v4_nd(label):
    """v4, Not-Defined spelling: the filled-in metric map (all that scoring reads), the cleaned
    vector, equality and hash are unchanged; score abstracted (shared relation: see assumptions)"""
    version = 4
    chk = Check("C05")
    sess = Session()
    vars_ = sess.assign_vars(version)
    m, vc = sess.m, sess.vc
    g_ = G.GRAMMARS[version]
    optional = [met for met, _ in g_["metrics"] if met not in g_["mandatory"]]
    current = {}

    def mk_replay(model, what):
        wb = current["written"]
        parts = ["CVSS:4.0"]
        for met, _ in g_["metrics"]:
            w = wb[met]
            if m.eval_nodes([w.pres], model)[0]:
                parts.append(sess.concretize(w.val, model))
        return {"kind": "relational", "property": "C05", "clause": "nd-spelling", "version": 4, "a": sess.vector_string(4, model), "b": "/".join(parts), "what": what, "compare": "all"}

    obj, vec, mod = O.make_object(sess, chk, version, vars_, label)
    base_written = {met: written_from_var(sess, met, vars_[met]) for met, _ in g_["metrics"]}
    sel = {met: m.new_var("sel_nd_" + met, [0, 1]) for met in optional}
    wb = dict(base_written)
    for met in optional:
        wb[met] = sub_nd_spelling(sess, version, vars_, met, sel[met])
    current["written"] = wb
    objb, vecb = run_pair(sess, chk, version, vars_, wb, label, mk_replay)
    m1, m2 = obj.attrs["metrics"], objb.attrs["metrics"]
    for k in m1.keys:
        if k not in m2.pres:
            O.must_not(sess, chk, m1.pres[k].l, "%s: metric map lacks %s after respelling" % (label, k), mk_replay)
            continue
        O.must_not(sess, chk, m.XOR(m1.pres[k].l, m2.pres[k].l), "%s: presence of %s in the filled-in metric map unchanged" % (label, k), mk_replay)
        O.must_hold(sess, chk, O.eq_cond(sess, m1.vals[k], m2.vals[k]), "%s: effective %s unchanged by Not-Defined spelling" % (label, k), mk_replay)
    for k in m2.keys:
        if k not in m1.pres:
            O.must_not(sess, chk, m2.pres[k].l, "%s: metric map gains %s after respelling" % (label, k), mk_replay)
    for acc in ["clean_vector"]:
        ra = O.call_ok(sess, chk, obj, acc, label=label)
        rb = O.call_ok(sess, chk, objb, acc, label=label)
        O.must_hold(sess, chk, O.eq_cond(sess, ra, rb), "%s: %s() unchanged by Not-Defined spelling" % (label, acc), mk_replay)
    O.must_hold(sess, chk, O.eq_cond(sess, obj, objb), "%s: objects equal across Not-Defined spellings" % label, mk_replay)
    ha = O.call_ok(sess, chk, obj, "__hash__", label=label)
    hb = O.call_ok(sess, chk, objb, "__hash__", label=label)
    O.must_hold(sess, chk, O.eq_cond(sess, ha, hb), "%s: hash equal across Not-Defined spellings" % label, mk_replay)
    chk.witnesses.append({"task": label, "a": sess.vector_string(4, m.pattern_assignment(0))})
    chk.absorb(sess)
    return chk.to_dict()


def permutations_of(version):
    """two whole-vector permutations: full reversal (every Modified / optional metric precedes
    the base metric it refers to) and groups in reverse order with the fields of each group in
    the standard's order"""
    g_ = G.GRAMMARS[version]
    names = [met for met, _ in g_["metrics"]]
    mand = [x for x in names if x in g_["mandatory"]]
    opt = [x for x in names if x not in g_["mandatory"]]
    return [("reversed", list(reversed(names))), ("optional-first", opt + mand)]


def compare_objects(sess, chk, label, version, obj, objb, mk_replay, what):
    m, vc = sess.m, sess.vc
    sa = O.items_of(O.call_ok(sess, chk, obj, "scores", label=label))
    sb = O.items_of(O.call_ok(sess, chk, objb, "scores", label=label))
    for i, (x, y) in enumerate(zip(sa, sb)):
        O.must_hold(sess, chk, O.eq_cond(sess, x, y), "%s: scores()[%d] unchanged by %s" % (label, i, what), mk_replay)
    accs = ["severities", "clean_vector", "rh_vector"] + (["temporal_vector", "environmental_vector"] if version in (2, 3) else [])
    for acc in accs:
        ra = O.call_ok(sess, chk, obj, acc, label=label)
        rb = O.call_ok(sess, chk, objb, acc, label=label)
        if isinstance(ra, (SymList, tuple, list)):
            for i, (x, y) in enumerate(zip(O.items_of(ra), O.items_of(rb))):
                O.must_hold(sess, chk, O.eq_cond(sess, x, y), "%s: %s()[%d] unchanged by %s" % (label, acc, i, what), mk_replay)
        else:
            O.must_hold(sess, chk, O.eq_cond(sess, ra, rb), "%s: %s() unchanged by %s" % (label, acc, what), mk_replay)
    O.must_hold(sess, chk, O.eq_cond(sess, obj, objb), "%s: objects equal under %s" % (label, what), mk_replay)
    ha = O.call_ok(sess, chk, obj, "__hash__", label=label)
    hb = O.call_ok(sess, chk, objb, "__hash__", label=label)
    O.must_hold(sess, chk, O.eq_cond(sess, ha, hb), "%s: hash equal under %s" % (label, what), mk_replay)


def task_order(version, fixed, label):
    """whole-vector permutations with the REAL constructor on both spellings (parse, fill-in,
    scoring): every output equal, for all assignments.  Complements the commutation lemma, whose
    state is the metric MAP: a computation that depends on the map's insertion order (iteration
    over self.metrics) is invisible there and visible here."""
    chk = Check("C05")
    sess = Session()
    vars_ = sess.assign_vars(version, fixed=fixed)
    m, vc = sess.m, sess.vc
    obj, vec, mod = O.make_object(sess, chk, version, vars_, label)
    cls = mod.globals["CVSS%d" % version]
    # v3 (48 sessions with real scoring): the reversal only in the quick tier
    perms = permutations_of(version) if (version != 3 or C.tier() == "thorough") else permutations_of(version)[:1]
    for pname, order in perms:
        def mk_replay(model, what, order=order):
            return {"kind": "relational", "property": "C05", "clause": "order", "version": version, "a": sess.vector_string(version, model),
                    "b": sess.concretize(sess.vector_from_vars(version, vars_, order=order), model), "what": what, "compare": "all"}

        vecb = sess.vector_from_vars(version, vars_, order=order)
        objb, raised = sess.call(cls, [vecb])
        lab = "%s order=%s" % (label, pname)
        for cond, exc in raised:
            nm = type(exc).__name__ if isinstance(exc, BaseException) else exc.cls.name
            O.must_not(sess, chk, vc.c_any(cond), "%s: constructor of the permuted vector raises %s" % (lab, nm), mk_replay)
        compare_objects(sess, chk, lab, version, obj, objb, mk_replay, "the permutation '%s' of the fields" % pname)
    chk.witnesses.append({"task": label, "a": sess.vector_string(version, m.pattern_assignment(0))})
    chk.extra["permutation_runs"] = 2
    chk.absorb(sess)
    return chk.to_dict()


def task_order4(label):
    """v4: both spellings through the real constructor with the score abstracted; every instance
    attribute the constructor leaves behind (metric maps compared as maps, everything else by
    value; the raw string excepted) and every accessor must agree.  The score is a function of
    that state (C02 executes the scoring code from it)."""
    version = 4
    chk = Check("C05")
    sess = Session()
    vars_ = sess.assign_vars(4)
    m, vc = sess.m, sess.vc
    mod = sess.load("cvss")
    C.set_epoch(1)
    sess.begin(mod)
    from .accessors import install_shared_v4_score

    # one shared arbitrary score for both spellings: the state they leave behind is compared
    # attribute by attribute below, and the score is a function of that state
    install_shared_v4_score(sess, mod)
    obj, vec, mod = O.make_object(sess, chk, version, vars_, label)
    cls = mod.globals["CVSS4"]
    for pname, order in permutations_of(4):
        def mk_replay(model, what, order=order):
            return {"kind": "relational", "property": "C05", "clause": "order", "version": 4, "a": sess.vector_string(4, model),
                    "b": sess.concretize(sess.vector_from_vars(4, vars_, order=order), model), "what": what, "compare": "all"}

        vecb = sess.vector_from_vars(4, vars_, order=order)
        objb, raised = sess.call(cls, [vecb])
        lab = "%s order=%s" % (label, pname)
        for cond, exc in raised:
            nm = type(exc).__name__ if isinstance(exc, BaseException) else exc.cls.name
            O.must_not(sess, chk, vc.c_any(cond), "%s: constructor of the permuted vector raises %s" % (lab, nm), mk_replay)
        names = sorted(set(obj.attrs) | set(objb.attrs))
        for a in names:
            if a in ("vector", "base_score", "severity"):
                continue
            if a not in obj.attrs or a not in objb.attrs:
                O.must_not(sess, chk, m.TRUE, "%s: attribute %s exists for one spelling only" % (lab, a), mk_replay)
                continue
            O.must_hold(sess, chk, O.eq_cond(sess, obj.attrs[a], objb.attrs[a]), "%s: attribute %s unchanged by the permutation" % (lab, a), mk_replay)
        for acc in ["clean_vector", "rh_vector"]:
            ra = O.call_ok(sess, chk, obj, acc, label=lab)
            rb = O.call_ok(sess, chk, objb, acc, label=lab)
            O.must_hold(sess, chk, O.eq_cond(sess, ra, rb), "%s: %s() unchanged by the permutation" % (lab, acc), mk_replay)
        O.must_hold(sess, chk, O.eq_cond(sess, obj, objb), "%s: objects equal under the permutation" % lab, mk_replay)
        ha = O.call_ok(sess, chk, obj, "__hash__", label=lab)
        hb = O.call_ok(sess, chk, objb, "__hash__", label=lab)
        O.must_hold(sess, chk, O.eq_cond(sess, ha, hb), "%s: hash equal under the permutation" % lab, mk_replay)
    chk.extra["permutation_runs"] = 2
    chk.absorb(sess)
    return chk.to_dict()


def relational_tasks(which):
    tasks = []
    for version in (2, 3):
        for (v, fixed, label) in split_tasks(version):
            tasks.append(("task", (v, fixed, label, which)))
    return tasks


SCORING4 = ["AV", "PR", "UI", "AC", "AT", "VC", "VI", "VA", "SC", "SI", "SA", "CR", "IR", "AR", "E"]
MODIFIED4 = ["MAV", "MAC", "MAT", "MPR", "MUI", "MVC", "MVI", "MVA", "MSC", "MSI", "MSA"]
SUPPLEMENTAL4 = ["S", "AU", "R", "V", "RE", "U"]


def task_v4_effective(clause):
    """v4: the effective value m(k) of every scoring input k - all that macroVector() and
    compute_base_score() read - is invariant under the substitution (real m() executed on both
    objects).  With C02 (score == specification(effective values) on all inputs, supplemental
    metrics included) this gives clause (a)-(d) for the v4 score."""
    version = 4
    chk = Check("C06")
    sess = Session()
    vars_ = sess.assign_vars(version)
    m, vc = sess.m, sess.vc
    g_ = G.GRAMMARS[version]
    label = "v4 (%s)" % clause
    current = {}

    def mk_replay(model, what):
        wb = current["written"]
        parts = ["CVSS:4.0"]
        for met, _ in g_["metrics"]:
            w = wb[met]
            if m.eval_nodes([w.pres], model)[0]:
                parts.append(sess.concretize(w.val, model))
        return {"kind": "relational", "property": "C06", "clause": clause, "version": 4, "a": sess.vector_string(4, model), "b": "/".join(parts), "what": what, "compare": "base"}

    obj, vec, mod = O.make_object(sess, chk, version, vars_, label)
    base_written = {met: written_from_var(sess, met, vars_[met]) for met, _ in g_["metrics"]}
    wb = dict(base_written)
    if clause == "a+b":
        for met in MODIFIED4:
            sel = m.new_var("sel_a_" + met, [0, 1])
            wb[met] = sub_set_value(sess, version, vars_, met, sel, value_labels(sess, vars_[met[1:]]))
        for met, eqv in EQUIV[4].items():
            sel = m.new_var("sel_b_" + met, [0, 1])
            wb[met] = sub_set_value(sess, version, vars_, met, sel, eqv)
    elif clause == "c":
        for met in SUPPLEMENTAL4:
            ov = m.new_var("c." + met, list(vars_[met].domain))
            wb[met] = sub_free_when(sess, version, vars_, met, ov, m.TRUE)
    elif clause == "d":
        for met in MODIFIED4:
            base = met[1:]
            ov = m.new_var("d." + base, list(vars_[base].domain))
            cond = m.NOT(undefined_guard(sess, version, vars_[met]))
            wb[base] = sub_free_when(sess, version, vars_, base, ov, cond)
    current["written"] = wb
    objb, vecb = run_pair(sess, chk, version, vars_, wb, label, mk_replay)
    for k in SCORING4:
        ea = O.call_ok(sess, chk, obj, "m", args=[k], label=label)
        eb = O.call_ok(sess, chk, objb, "m", args=[k], label=label)
        O.must_hold(sess, chk, O.eq_cond(sess, ea, eb), "%s: effective value of %s unchanged" % (label, k), mk_replay)
    mva = O.call_ok(sess, chk, obj, "macroVector", label=label)
    mvb = O.call_ok(sess, chk, objb, "macroVector", label=label)
    O.must_hold(sess, chk, O.eq_cond(sess, mva, mvb), "%s: macrovector unchanged" % label, mk_replay)
    chk.witnesses.append({"task": label, "a": sess.vector_string(4, m.pattern_assignment(0))})
    chk.absorb(sess)
    return chk.to_dict()


def main_c06():
    chk = Check("C06")
    tasks = relational_tasks("C06") + [("task_v4_effective", (c,)) for c in ("a+b", "c", "d")]
    for r in C.run_named_tasks("harness.relational", tasks):
        chk.absorb_dict(r)
    chk.input_model = ("two related runs per session: object A from the M-ASSIGN variables, object B from the vector obtained by the substitution under test applied to an arbitrary subset of the eligible metrics "
                       "(one selector variable per metric); v2 27 and v3 48 sessions with real scoring of both objects; v4: the real effective-value function m() and macroVector() on both objects")
    chk.bounds = ["none on the metric domain; every subset of eligible metrics (selector variables)"]
    chk.outside = ["v4 score itself: (a)-(d) follow from invariance of the effective values (checked here on the real m()) together with C02 (score == specification(effective values) for every assignment, supplemental metrics included); the thorough tier of C02 is the place where the v4 score is re-derived"]
    chk.assumptions = ["equivalence tables of clause (b) typed from the standards (harness/relational.py EQUIV)",
                       "v4: CVSS4.macroVector()/compute_base_score() read metric values only through m() (true of the pinned source; C02 would refute a change that reads them elsewhere and alters a score)"]
    C.finish(chk)


def main_c05():
    chk = Check("C05")
    tasks = relational_tasks("C05") + [("task_v4_nd", ("v4[score abstracted]",))]
    for r in C.run_named_tasks("harness.relational", tasks):
        chk.absorb_dict(r)
    comm = [("task_comm", (v,)) for v in (2, 3, 4)]
    for r in C.run_named_tasks("harness.parse_lemmas", comm):
        chk.absorb_dict(r)
    acc = [("task_vector_independence", (v,)) for v in (2, 3, 4)]
    for r in C.run_named_tasks("harness.relational", acc):
        chk.absorb_dict(r)
    # whole-vector permutations, real constructor on both spellings
    otasks = []
    for version in (2, 3):
        for (v, fixed, label) in split_tasks(version):
            otasks.append(("task_order", (v, fixed, label)))
    otasks.append(("task_order4", ("v4[score abstracted]",)))
    for r in C.run_named_tasks("harness.relational", otasks):
        chk.absorb_dict(r)
    chk.input_model = ("Not-Defined spelling: two related runs (A from the variables, B with ABSENT<->explicit ND/X toggled on an arbitrary subset of optional metrics), all outputs compared; "
                       "field order: commutation lemma on the real loop body of parse_vector (two field slots over the legal literals + near misses, both orders, from an arbitrary metric map) "
                       "and independence of every accessor from the raw input string (executed with the string replaced by an opaque token)")
    chk.input_model += ("; whole-vector permutations: the real constructor (parse, fill-in, real scoring) on the canonical spelling and on two permutations of it (full reversal; optional metrics first) over the same variables, every output compared "
                        "(v2 27 sessions, v3 48 sessions with real scoring; v4 with the score abstracted: every attribute the constructor leaves behind is compared, the score being a function of that state)")
    chk.bounds = ["whole-vector permutations: two permutations, all assignments (v4: state and accessors, score abstracted); they show computations that depend on the insertion order of the metric map, which the map-valued commutation lemma cannot see",
                  "commutation lemma: slot alphabet = every legal literal + a near-miss list (size in evidence)", "v4 scores under Not-Defined respelling: via equality of the filled-in metric map (the only state scoring reads)"]
    chk.outside = ["permutations of more than two fields: written induction over adjacent transpositions (every permutation is a product of them; the loop state after any prefix is an 'arbitrary state' of the lemma)"]
    chk.assumptions = ["the code around the loop does not look at field order (C04 L2: it only inspects emptiness, the last character and the head)",
                       "as_json()['vectorString'] echoes the input by design (C11) and is therefore the one output that legitimately depends on the spelling"]
    C.finish(chk)


def task_vector_independence(version):
    """every accessor named in C05 is a function of the parsed state only: executed with
    self.vector replaced by an opaque token, no result may contain or branch on it"""
    chk = Check("C05")
    sess = Session()
    vars_ = sess.assign_vars(version)
    m, vc = sess.m, sess.vc
    label = "v%d accessors vs raw string" % version
    mod = sess.load("cvss")
    C.set_epoch(1)
    sess.begin(mod)
    O.abstract_scores(sess, mod, version)
    sess._abs4 = True
    obj, vec, mod = O.make_object(sess, chk, version, vars_, label)
    token = C.Opaque("raw-input-string")
    obj.attrs["vector"] = token

    def mk_replay(model, what):
        return {"kind": "c07_single", "version": version, "vector": sess.vector_string(version, model), "what": what}

    def contains(v, depth=0):
        if v is token:
            return True
        if depth > 6:
            return False
        if isinstance(v, U):
            return any(contains(l, depth + 1) for _, l in v.alts)
        if isinstance(v, C.Opaque):
            return any(contains(a, depth + 1) for a in v.args)
        if isinstance(v, SymList):
            return any(contains(e, depth + 1) for _, e in v.elems)
        if isinstance(v, SymDict):
            return any(contains(x, depth + 1) for x in v.vals.values())
        if isinstance(v, StructStr):
            return any(contains(s, depth + 1) for _, s in v.chunks)
        if isinstance(v, (tuple, list)):
            return any(contains(x, depth + 1) for x in v)
        return False

    accs = ["scores", "severities", "clean_vector", "rh_vector", "__hash__"] + (["temporal_vector", "environmental_vector"] if version in (2, 3) else [])
    for acc in accs:
        try:
            r = O.call_ok(sess, chk, obj, acc, label=label, mk_replay=mk_replay)
        except C.Unsupported as e:
            if "opaque" in str(e):
                O.must_not(sess, chk, m.TRUE, "%s: %s() branches on the raw input string" % (label, acc), mk_replay)
                continue
            raise
        if contains(r):
            O.must_not(sess, chk, m.TRUE, "%s: %s() depends on the raw input string" % (label, acc), mk_replay)
        else:
            chk.add_vc("%s: %s() does not use the raw input string" % (label, acc), "unsat", 0, 0, trivial=True)
    chk.absorb(sess)
    return chk.to_dict()
