"""
v4 part of C14.

(1) table lemma (all tiers): the lookup table read from the current source is monotone in every
    equivalence-class digit (a necessary condition: the highest-severity vectors of neighbouring
    macrovectors are one severity step apart on some metric path);
(2) product execution per (macrovector of the less severe side, metric step): the real
    constructor in pair mode under the fork assumption, on the *effective* spelling of v4 vectors
    (the 11 base metrics, E, CR, IR, AR, and MSI/MSA - needed to reach Safety; every other
    Modified metric absent: by C06 the score depends on effective values only).
    quick tier: a seeded subset of the forks; thorough tier: all 270.
"""

import random
import sys
import time

from . import common as C
from . import objects as O
from .common import ABSENT, G, U, Check, Cond, Pair, Session, StructStr, SymDict, SymList, unsat_or_cex

EFFECTIVE_VARS = ["AV", "AC", "AT", "PR", "UI", "VC", "VI", "VA", "SC", "SI", "SA", "E", "CR", "IR", "AR", "MSI", "MSA"]
STEP_ORDER = {"AV": ["P", "L", "A", "N"], "AC": ["H", "L"], "AT": ["P", "N"], "PR": ["H", "L", "N"], "UI": ["A", "P", "N"], "VC": ["N", "L", "H"], "VI": ["N", "L", "H"], "VA": ["N", "L", "H"],
              "SC": ["N", "L", "H"], "SI": ["N", "L", "H"], "SA": ["N", "L", "H"], "E": ["U", "P", "A"], "CR": ["L", "M", "H"], "IR": ["L", "M", "H"], "AR": ["L", "M", "H"],
              "MSI": ["N", "L", "H", "S"], "MSA": ["N", "L", "H", "S"]}


def all_steps():
    out = []
    for met in EFFECTIVE_VARS:
        o = STEP_ORDER[met]
        for a, b in zip(o, o[1:]):
            out.append((met, a, b))
    return out


def task_table(dummy):
    chk = Check("C14")
    sess = Session()
    mod = sess.load("cvss.constants4")
    table = mod.globals["CVSS_LOOKUP_GLOBAL"]
    table = dict(table) if not isinstance(table, dict) else table
    n = 0
    for mv, val in table.items():
        for i in range(6):
            lower = mv[:i] + str(int(mv[i]) + 1) + mv[i + 1:]
            if lower in table:
                n += 1
                name = "lookup[%s] >= lookup[%s] (digit %d less severe)" % (mv, lower, i + 1)
                if table[lower] > val:
                    chk.add_vc(name, "sat", 0, 0, detail={"values": [val, table[lower]]})
                    chk.counterexamples.append({"vc": name, "replay": {"kind": "c14_table", "higher": mv, "lower": lower, "what": name, "values": [val, table[lower]]}})
    chk.add_vc("lookup table monotone in every EQ digit (%d neighbour pairs of %d entries)" % (n, len(table)), "unsat" if not chk.counterexamples else "sat", 0, 0, trivial=True)
    chk.extra["lookup_neighbour_pairs"] = n
    chk.files.update(sess.it.files_read)
    return chk.to_dict()


def task_fork(digits, step_list):
    from . import score4
    from .mono import num

    chk = Check("C14")
    label0 = "v4 mv=" + "".join(str(d) for d in digits)
    for met, a, b in step_list:
        sess = Session(npat=512)
        m, vc = sess.m, sess.vc
        m.sweeping = bool(int(__import__("os").environ.get("VERIF_MONO4_SWEEP", "0")))
        label = "%s %s:%s->%s" % (label0, met, a, b)
        vars_ = sess.assign_vars(4, only=[x for x in EFFECTIVE_VARS], fixed={met: [a]})
        # left-side macrovector from the specification's EQ definitions (EQ *definitions* only,
        # typed from the standard; no scores)
        smod, d, e, items = score4.spec_macrovector(sess, vars_)
        g = score4.mv_guard(sess, items, digits)
        if m.is_sat(g, "vacuity") is not True:
            continue  # this step cannot start in this macrovector
        m.restrict(g, nsamples=128)
        del vars_[met]
        from .mono import pair_vector

        vec = pair_vector(sess, 4, vars_, met, a, b)
        mod = sess.load("cvss")
        C.set_epoch(1)
        cls = mod.globals["CVSS4"]

        def mk_replay(model, what, met=met, a=a, b=b):
            mm = dict(model)
            mm[met] = a
            va = sess.vector_string(4, mm)
            mm[met] = b
            vb = sess.vector_string(4, mm)
            return {"kind": "c14", "version": 4, "a": va, "b": vb, "what": what}

        obj, raised = sess.call(cls, [vec])
        for cond, exc in raised:
            nm = type(exc).__name__ if isinstance(exc, BaseException) else exc.cls.name
            O.must_not(sess, chk, m.OR(cond.l, cond.r), "%s: constructor raises %s" % (label, nm), mk_replay)
        s = obj.attrs.get("base_score")
        npairs = 0
        for gg, leaf in vc.alts(s):
            if type(leaf) is not Pair:
                continue
            npairs += 1
            l, r = leaf.l, leaf.r
            if l is C.UNBOUND or r is C.UNBOUND or l is None or r is None:
                O.must_not(sess, chk, gg, "%s: score undefined on one side" % label, mk_replay)
            elif num(r) < num(l):
                O.must_not(sess, chk, gg, "%s: score drops from %r to %r" % (label, l, r), mk_replay)
        chk.extra["reachable_score_pairs"] = chk.extra.get("reachable_score_pairs", 0) + npairs
        chk.extra["steps"] = chk.extra.get("steps", 0) + 1
        chk.absorb(sess)
    chk.extra["forks"] = 1
    return chk.to_dict()


def fork_list():
    import itertools

    from spec.cvss4_lookup import LOOKUP

    return [tuple(int(c) for c in k) for k in LOOKUP]


def tasks():
    out = [("task_table", (0,))]
    forks = fork_list()
    steps = all_steps()
    rng = random.Random(C.seed())
    if C.tier() == "quick":
        for f in rng.sample(forks, 14):
            out.append(("task_fork", (f, [rng.choice(steps)])))
    else:
        for f in rng.sample(forks, 56):
            out.append(("task_fork", (f, [rng.choice(steps)])))
    return out


def bounds():
    if C.tier() == "quick":
        return ["v4: the table lemma on all 270 lookup entries (complete); product execution only for a seeded sample of 14 (macrovector fork, metric step) cases of the 270 x 31 - one such run costs minutes in this engine, so complete v4 coverage by product execution is NOT claimed"]
    return ["v4: the table lemma on all 270 lookup entries (complete); product execution for a seeded sample of 56 (macrovector fork, metric step) cases of the 270 x 31: complete v4 coverage by product execution is NOT claimed"]


def outside():
    return ["v4 (fork, step) cases outside the seeded sample; v4 Modified-metric spellings other than MSI/MSA (by C06 the score depends on effective values only)"]


def task_fork_all_steps(digits):
    """one macrovector fork, ALL metric steps at once: object A from the variables (its
    macrovector fixed by the fork), object B from the vector in which the metric selected by a
    fresh variable `which` is raised by one severity step (where it is not already at its most
    severe value).  Both real constructors run in one session; every pair of reachable scores
    (A = s, B = t) with t < s must have an unsatisfiable joint guard."""
    from . import relational as R
    from . import score4
    from .mono import num

    chk = Check("C14")
    sess = Session(npat=512)
    m, vc = sess.m, sess.vc
    label = "v4 mv=" + "".join(str(d) for d in digits) + " all steps"
    vars_ = sess.assign_vars(4, only=[x for x in EFFECTIVE_VARS])
    smod, d, e, items = score4.spec_macrovector(sess, vars_)
    g = score4.mv_guard(sess, items, digits)
    if m.is_sat(g, "vacuity") is not True:
        chk.absorb(sess)
        return chk.to_dict()
    m.restrict(g, nsamples=192)
    which = m.new_var("which", list(EFFECTIVE_VARS))
    g_ = G.GRAMMARS[4]
    written = {}
    for met, _ in g_["metrics"]:
        if met not in vars_:
            written[met] = R.Written(m.FALSE, met + ":X")
            continue
        var = vars_[met]
        w = m.atom(which, met)
        order = STEP_ORDER[met]
        pairs = []
        for lab in var.domain:
            if lab is ABSENT:
                continue
            if lab in order and order.index(lab) + 1 < len(order):
                nxt = order[order.index(lab) + 1]
                pairs.append((m.AND(m.atom(var, lab), w), met + ":" + nxt))
                pairs.append((m.AND(m.atom(var, lab), m.NOT(w)), met + ":" + lab))
            else:
                pairs.append((m.atom(var, lab), met + ":" + lab))
        pres = m.NOT(m.atom(var, ABSENT)) if ABSENT in var.index else m.TRUE
        rest = m.NOT(m.or_all([x for x, _ in pairs]))
        pairs.append((rest, met + ":X"))
        written[met] = R.Written(pres, vc.mk_union(pairs, sweep=False))
    veca = sess.vector_from_vars(4, vars_)
    vecb = R.vector_from_written(sess, 4, vars_, written)
    mod = sess.load("cvss")
    C.set_epoch(1)
    cls = mod.globals["CVSS4"]

    def mk_replay(model, what):
        parts = ["CVSS:4.0"]
        for met, _ in g_["metrics"]:
            w = written[met]
            if m.eval_nodes([w.pres], model)[0]:
                parts.append(sess.concretize(w.val, model))
        return {"kind": "c14", "version": 4, "a": sess.vector_string(4, model), "b": "/".join(parts), "what": what}

    t0 = time.time()
    a, raised = sess.call(cls, [veca])
    for cond, exc in raised:
        O.must_not(sess, chk, vc.c_any(cond), "%s: constructor raises on the less severe vector" % label, mk_replay)
    ta = time.time() - t0
    t0 = time.time()
    b, raised = sess.call(cls, [vecb])
    for cond, exc in raised:
        O.must_not(sess, chk, vc.c_any(cond), "%s: constructor raises on the more severe vector" % label, mk_replay)
    tb = time.time() - t0
    sa, sb = a.attrs.get("base_score"), b.attrs.get("base_score")
    npairs = 0
    t0 = time.time()
    for gi, si in vc.alts(sa):
        for hj, tj in vc.alts(sb):
            if si is C.UNBOUND or tj is C.UNBOUND or si is None or tj is None:
                continue
            if num(tj) < num(si):
                npairs += 1
                O.must_not(sess, chk, m.AND(gi, hj), "%s: score %r on the less severe vector, %r after raising one metric" % (label, si, tj), mk_replay)
    chk.extra["order_violating_pairs_refuted"] = npairs
    chk.extra["forks_all_steps"] = 1
    chk.extra["timing"] = [{"fork": label, "a_s": round(ta, 1), "b_s": round(tb, 1), "compare_s": round(time.time() - t0, 1), "nodes": len(m.nodes)}]
    chk.absorb(sess)
    return chk.to_dict()
