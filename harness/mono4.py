"""
v4 part of C14.

(1) table lemma (all tiers): the lookup table read from the current source is monotone in every
    equivalence-class digit (a necessary condition: the highest-severity vectors of neighbouring
    macrovectors are one severity step apart on some metric path);
(2) product execution per (macrovector of the less severe side, metric step): the real
    constructor in pair mode under the fork assumption, on the *effective* spelling of v4 vectors
    (the 11 base metrics, E, CR, IR, AR, and MSI/MSA - needed to reach Safety; every other
    Modified metric absent: by C06 the score depends on effective values only).
    Both tiers: a seeded sample of (fork, step) cases (quick 28, thorough 600) among the 7,488 feasible ones.
"""

import random
import sys
import time

from . import common as C
from . import objects as O
from .common import ABSENT, G, U, Check, Cond, Pair, Session, StructStr, SymDict, SymList, unsat_or_cex

EFFECTIVE_VARS = ["AV", "AC", "AT", "PR", "UI", "VC", "VI", "VA", "SC", "SI", "SA", "E", "CR", "IR", "AR", "MSI", "MSA"]
STEP_ORDER = {"AV": ["P", "L", "A", "N"], "AC": ["H", "L"], "AT": ["P", "N"], "PR": ["H", "L", "N"], "UI": ["A", "P", "N"], "VC": ["N", "L", "H"], "VI": ["N", "L", "H"], "VA": ["N", "L", "H"],
              "SC": ["N", "L", "H"], "SI": ["N", "L", "H"], "SA": ["N", "L", "H"], "E": ["U", "P", "A"], "CR": ["L", "M", "H"], "IR": ["L", "M", "H"], "AR": ["L", "M", "H"],
              "MSI": ["N", "L", "H", "S"], "MSA": ["N", "L", "H", "S"]}


def all_steps():
    out = []
    for met in EFFECTIVE_VARS:
        o = STEP_ORDER[met]
        for a, b in zip(o, o[1:]):
            out.append((met, a, b))
    return out


def task_table(dummy):
    chk = Check("C14")
    sess = Session()
    mod = sess.load("cvss.constants4")
    table = mod.globals["CVSS_LOOKUP_GLOBAL"]
    table = dict(table) if not isinstance(table, dict) else table
    n = 0
    for mv, val in table.items():
        for i in range(6):
            lower = mv[:i] + str(int(mv[i]) + 1) + mv[i + 1:]
            if lower in table:
                n += 1
                name = "lookup[%s] >= lookup[%s] (digit %d less severe)" % (mv, lower, i + 1)
                if table[lower] > val:
                    chk.add_vc(name, "sat", 0, 0, detail={"values": [val, table[lower]]})
                    chk.counterexamples.append({"vc": name, "replay": {"kind": "c14_table", "higher": mv, "lower": lower, "what": name, "values": [val, table[lower]]}})
    chk.add_vc("lookup table monotone in every EQ digit (%d neighbour pairs of %d entries)" % (n, len(table)), "unsat" if not chk.counterexamples else "sat", 0, 0, trivial=True)
    chk.extra["lookup_neighbour_pairs"] = n
    chk.files.update(sess.it.files_read)
    return chk.to_dict()


def task_fork(digits, step_list, d4s=None):
    """d4s: for large macrovectors, candidate values of the EQ4 severity distance of the less
    severe side; the first feasible one further restricts the run (it is a sample anyway)"""
    from . import score4
    from .mono import num

    chk = Check("C14")
    label0 = "v4 mv=" + "".join(str(d) for d in digits)
    for met, a, b in step_list:
        sess = Session(npat=512)
        m, vc = sess.m, sess.vc
        m.sweeping = bool(int(__import__("os").environ.get("VERIF_MONO4_SWEEP", "0")))
        label = "%s %s:%s->%s" % (label0, met, a, b)
        vars_ = sess.assign_vars(4, only=[x for x in EFFECTIVE_VARS], fixed={met: [a]})
        # left-side macrovector from the specification's EQ definitions (EQ *definitions* only,
        # typed from the standard; no scores)
        smod, d, e, items = score4.spec_macrovector(sess, vars_)
        g = score4.mv_guard(sess, items, digits)
        if m.is_sat(g, "vacuity") is not True:
            continue  # this step cannot start in this macrovector
        if d4s:
            du, raised = sess.call(smod.globals["distance"], [e, smod.globals["EQ4_MAX"][digits[3]], ["SC", "SI", "SA"]])
            for k in d4s:
                g2 = m.AND(g, vc.guard_eq(du, k))
                if m.is_sat(g2, "vacuity") is True:
                    g = g2
                    label += " [d4=%s]" % k
                    break
        m.restrict(g, nsamples=128)
        del vars_[met]
        from .mono import pair_vector

        vec = pair_vector(sess, 4, vars_, met, a, b)
        mod = sess.load("cvss")
        C.set_epoch(1)
        cls = mod.globals["CVSS4"]

        def mk_replay(model, what, met=met, a=a, b=b):
            mm = dict(model)
            mm[met] = a
            va = sess.vector_string(4, mm)
            mm[met] = b
            vb = sess.vector_string(4, mm)
            return {"kind": "c14", "version": 4, "a": va, "b": vb, "what": what}

        obj, raised = sess.call(cls, [vec])
        for cond, exc in raised:
            nm = (type(exc).__name__ + " " + str(exc)[:80]) if isinstance(exc, BaseException) else exc.cls.name
            O.must_not(sess, chk, m.OR(cond.l, cond.r), "%s: constructor raises %s" % (label, nm), mk_replay)
        s = obj.attrs.get("base_score")
        npairs = 0
        for gg, leaf in vc.alts(s):
            if type(leaf) is not Pair:
                continue
            npairs += 1
            l, r = leaf.l, leaf.r
            if l is C.UNBOUND or r is C.UNBOUND or l is None or r is None:
                O.must_not(sess, chk, gg, "%s: score undefined on one side" % label, mk_replay)
            elif num(r) < num(l):
                O.must_not(sess, chk, gg, "%s: score drops from %r to %r" % (label, l, r), mk_replay)
        chk.extra["reachable_score_pairs"] = chk.extra.get("reachable_score_pairs", 0) + npairs
        chk.extra["steps"] = chk.extra.get("steps", 0) + 1
        chk.absorb(sess)
    chk.extra["forks"] = 1
    return chk.to_dict()


def fork_list():
    import itertools

    from spec.cvss4_lookup import LOOKUP

    return [tuple(int(c) for c in k) for k in LOOKUP]


def step_feasible(f, met, a):
    """can a vector of macrovector f carry met = a?  (brute force over the metrics of the
    equivalence class the metric belongs to, with the specification's EQ definitions)"""
    import itertools

    from spec import cvss4_spec as S4

    def ex(names, doms, pred):
        for combo in itertools.product(*doms):
            v = dict(zip(names, combo))
            if v.get(met, a) == a and pred(v):
                return True
        return False

    if met in ("AV", "PR", "UI"):
        return ex(["AV", "PR", "UI"], ["NALP", "NLH", "NPA"], lambda v: S4.eq1(v["AV"], v["PR"], v["UI"]) == f[0])
    if met in ("AC", "AT"):
        return ex(["AC", "AT"], ["LH", "NP"], lambda v: S4.eq2(v["AC"], v["AT"]) == f[1])
    if met in ("VC", "VI", "VA", "CR", "IR", "AR"):
        return ex(["VC", "VI", "VA", "CR", "IR", "AR"], ["HLN"] * 3 + ["HML"] * 3,
                  lambda v: S4.eq3(v["VC"], v["VI"], v["VA"]) == f[2] and S4.eq6(v["VC"], v["VI"], v["VA"], v["CR"], v["IR"], v["AR"]) == f[5])
    if met in ("SC", "SI", "SA", "MSI", "MSA"):
        def p4(v):
            si = v["MSI"] if v["MSI"] != "-" else v["SI"]
            sa = v["MSA"] if v["MSA"] != "-" else v["SA"]
            return S4.eq4(v["SC"], si, sa) == f[3]
        return ex(["SC", "SI", "SA", "MSI", "MSA"], ["HLN", "HLN", "HLN", ["-", "N", "L", "H", "S"], ["-", "N", "L", "H", "S"]], p4)
    if met == "E":
        return S4.eq5(a) == f[4]
    return True


def tasks():
    out = [("task_table", (0,))]
    forks = fork_list()
    steps = all_steps()
    from spec import cvss4_spec as S4

    rng = random.Random(C.seed())
    # only (fork, step) cases in which the step can start inside the macrovector
    cases = [(f, st) for f in forks for st in steps if step_feasible(f, st[0], st[1])]
    # stratified: a step of E always crosses into another macrovector (EQ5 has the single metric
    # E), which is where a changed table entry or gap term shows; the thorough tier runs ALL of
    # those cases plus a seeded sample of the others, the quick tier half of its few from them
    ecases = [c for c in cases if c[1][0] == "E"]
    others = [c for c in cases if c[1][0] != "E"]
    if C.tier() == "quick":
        picked = rng.sample(ecases, 4) + rng.sample(others, 4)
    else:
        picked = ecases + rng.sample(others, 450)
    for f, st in picked:
        d4s = None
        if S4.EQ4_DEPTH[f[3]] * S4.EQ36_DEPTH[(f[2], f[5])] >= 35:
            d4s = list(range(0, S4.EQ4_DEPTH[f[3]] + 3))
            rng.shuffle(d4s)
        out.append(("task_fork", (f, [st], d4s)))
    return out


def bounds():
    if C.tier() == "quick":
        return ["v4: the table lemma on all 270 lookup entries (complete); product execution only for a seeded sample of 8 (macrovector fork, metric step) cases (4 steps of E, 4 of other metrics) of the feasible ones among 270 x 31 (large macrovectors further restricted to one value of the EQ4 severity distance) - one such run costs minutes in this engine, so complete v4 coverage by product execution is NOT claimed"]
    return ["v4: the table lemma on all 270 lookup entries (complete); product execution for ALL feasible (macrovector fork, step of E) cases - a step of E always crosses into another macrovector - and a seeded sample of 450 of the feasible cases of the other metrics among 270 x 31 (large macrovectors further restricted to one value of the EQ4 severity distance): complete v4 coverage by product execution is NOT claimed"]


def outside():
    return ["v4 (fork, step) cases outside the seeded sample; v4 Modified-metric spellings other than MSI/MSA (by C06 the score depends on effective values only)"]

