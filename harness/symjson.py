"""
Symbolic evaluation of a JSON Schema (the keywords the four FIRST CVSS schemas use) over the
symbolic dictionary returned by as_json(), and of a regular expression over a structured string.
Unsupported keywords raise Unsupported (fail closed).
"""

import json
import os
from decimal import Decimal

from spec import regex_nfa as R

from . import common as C
from .common import Cond, Pair, StructStr, SymDict, SymList, U, Unsupported

IGNORED = {"description", "default", "title", "license", "$schema", "id", "$id", "definitions", "examples", "$comment"}
SCHEMA_DIR = os.path.join(C.ROOT, "spec", "schemas")
SCHEMA_FILES = {"2.0": "cvss-v2.0.json", "3.0": "cvss-v3.0.json", "3.1": "cvss-v3.1.json", "4.0": "cvss-v4.0.json"}
SCHEMA_SHA256 = {
    "cvss-v2.0.json": "cd1a7c0815b7a47dc12fb7dded10622b96d562841f7bc6d2d8765c5d937a28f2",
    "cvss-v3.0.json": "0a47e1563469edc61aeb87399d704dc250faef2bc6f6e74cde13386416985bc5",
    "cvss-v3.1.json": "1283ae003c71815abcbfc864aa003bb62969d6a47650c1cfca7c1b7ebf1ca52c",
    "cvss-v4.0.json": "74a4108a9b1fac9f89802ebe27a9f826266a32aac3ba12c3f0c90a8239f4c2b9",
}


def load_schema(ver):
    with open(os.path.join(SCHEMA_DIR, SCHEMA_FILES[ver])) as f:
        return json.load(f)


def regex_accepts(sess, pattern, ss):
    """guard: the structured string matches the pattern (NFA state sets carried symbolically)"""
    m, vc = sess.m, sess.vc
    n = R.parse(pattern)
    if not isinstance(ss, StructStr):
        if isinstance(ss, str):
            return m.TRUE if R.accepts(n, R.step(n, R.initial(n), ss)) else m.FALSE
        gs = []
        for g, leaf in vc.alts(ss):
            if isinstance(leaf, str) and R.accepts(n, R.step(n, R.initial(n), leaf)):
                gs.append(g)
        return m.or_all(gs)
    # state: (nfa state set, seen a chunk already) -> guard
    states = {(R.initial(n), False): m.TRUE}
    for pres, s in ss.chunks:
        pres = m.find(pres)
        if pres is m.FALSE:
            continue
        new = {}

        def add(k, g):
            if g is m.FALSE:
                return
            new[k] = m.OR(new[k], g) if k in new else g

        npres = m.NOT(pres)
        for (st, seen), g in states.items():
            add((st, seen), m.AND(g, npres))
            gp = m.AND(g, pres)
            if gp is m.FALSE:
                continue
            for ga, leaf in vc.alts(s):
                if type(leaf) is Pair:
                    raise Unsupported("regex over pair leaf")
                txt = (ss.sep if seen else "") + leaf
                st2 = R.step(n, st, txt) if st else st
                add((st2, True), m.AND(gp, ga))
        states = new
    acc = [g for (st, seen), g in states.items() if R.accepts(n, st)]
    return m.or_all(acc)


class Validator(object):
    def __init__(self, sess, schema):
        self.sess = sess
        self.root = schema
        self.m = sess.m
        self.vc = sess.vc

    def resolve(self, ref):
        if not ref.startswith("#/"):
            raise Unsupported("$ref %r" % ref)
        node = self.root
        for part in ref[2:].split("/"):
            node = node[part]
        return node

    def leaf_valid(self, schema, v):
        """concrete validation of a JSON scalar leaf"""
        from spec import schema_concrete

        try:
            return schema_concrete.valid(self.root, schema, v)
        except ValueError as e:
            raise Unsupported(str(e))

    def value_valid(self, schema, v):
        """guard: symbolic value v validates against schema"""
        m, vc = self.m, self.vc
        if isinstance(v, StructStr):
            g = m.TRUE
            for k, x in schema.items():
                if k in IGNORED:
                    continue
                if k == "$ref":
                    g = m.AND(g, self.value_valid(self.resolve(x), v))
                elif k == "type":
                    if "string" not in (x if isinstance(x, list) else [x]):
                        return m.FALSE
                elif k == "pattern":
                    g = m.AND(g, regex_accepts(self.sess, x, v))
                elif k in ("enum",):
                    from pysymex import structstr as SS

                    c = vc.CF
                    for e in x:
                        if isinstance(e, str):
                            c = vc.c_or(c, SS.eq_const(vc, v, e))
                    g = m.AND(g, c.l)
                elif k == "const":
                    from pysymex import structstr as SS

                    g = m.AND(g, SS.eq_const(vc, v, x).l if isinstance(x, str) else m.FALSE)
                elif k in ("minimum", "maximum", "multipleOf"):
                    pass
                else:
                    raise Unsupported("JSON Schema keyword %r on a string" % k)
            return g
        if isinstance(v, (SymDict, SymList)):
            raise Unsupported("nested symbolic container in JSON value")
        bad = []
        for g, leaf in vc.alts(v):
            if type(leaf) is Pair:
                raise Unsupported("pair leaf in JSON value")
            if isinstance(leaf, C.Opaque):
                raise Unsupported("opaque JSON value")
            if not self.leaf_valid(schema, leaf):
                bad.append(g)
        return m.NOT(m.or_all(bad))

    def object_valid(self, schema, d):
        """guard: the symbolic dict d validates against the (object) schema"""
        m, vc = self.m, self.vc
        g = m.TRUE
        for k, x in schema.items():
            if k in IGNORED:
                continue
            if k == "type":
                if x != "object":
                    return m.FALSE
            elif k == "required":
                for key in x:
                    p = d.pres.get(key)
                    g = m.AND(g, p.l if p is not None else m.FALSE)
            elif k == "properties":
                for key, sub in x.items():
                    if key not in d.pres:
                        continue
                    p = d.pres[key].l
                    ok = self.value_valid(sub, d.vals[key])
                    g = m.AND(g, m.OR(m.NOT(p), ok))
            elif k == "additionalProperties":
                if x is False:
                    allowed = set(schema.get("properties", {}))
                    for key in d.keys:
                        if key not in allowed:
                            g = m.AND(g, m.NOT(d.pres[key].l))
                elif x is not True:
                    raise Unsupported("additionalProperties schema")
            elif k == "allOf":
                for s in x:
                    g = m.AND(g, self.object_valid(s, d))
            elif k == "anyOf":
                g = m.AND(g, m.or_all([self.object_valid(s, d) for s in x]))
            elif k == "$ref":
                g = m.AND(g, self.object_valid(self.resolve(x), d))
            else:
                raise Unsupported("JSON Schema keyword %r" % k)
        return g

    def explain(self, d, asg):
        """for a concrete assignment: which top-level parts fail (used in counterexample text)"""
        out = []
        schema = self.root
        conc = self.sess.concretize(d, asg)
        for key in schema.get("required", []):
            if key not in conc:
                out.append("missing required %r" % key)
        for key, sub in schema.get("properties", {}).items():
            if key in conc:
                try:
                    if not self.leaf_valid(sub, conc[key]):
                        out.append("%s=%r" % (key, conc[key]))
                except Unsupported:
                    pass
        return out
