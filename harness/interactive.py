"""
C16: the interactive builder.  ask_interactively() is executed symbolically with print logged and
input() answered from per-(metric, retry) answer variables over a finite alphabet (legal values in
several letter cases, padded, empty, Not-Defined spellings, garbage).  While-loops are unrolled to
a stated bound; paths needing more retries are excluded (unwinding assumption, reported).
"""

import sys

from pysymex.interp import UnwindCut

from . import common as C
from . import objects as O
from .common import ABSENT, G, U, Check, Cond, Obj, Session, StructStr, SymDict, SymList, unsat_or_cex

ND = {2: "ND", 3: "X", 4: "X"}
VERSIONS = {"2": (2, 2, ""), "3.0": (3.0, 3, "CVSS:3.0"), "3.1": (3.1, 3, "CVSS:3.1"), "4.0": (4.0, 4, "CVSS:4.0")}


def answer_alphabet(version, met):
    vals = G.legal(G.GRAMMARS[version], met)
    out = []
    for v in vals:
        for x in (v, v.lower(), v.upper(), v.capitalize(), " " + v, v + " ", "\t" + v.lower() + " "):
            if x not in out:
                out.append(x)
    for x in ("", " ", "nd", "ND", "x", "X", "?", "Q", "N/A", "0", vals[0] + vals[0], vals[0] + ":", ":" + vals[0]):
        if x not in out:
            out.append(x)
    # values that are legal for OTHER metrics of the version (a builder that looks answers up in
    # a table shared between the questions accepts them)
    for met2, vals2 in G.GRAMMARS[version]["metrics"]:
        for v in vals2:
            for x in (v, v.lower()):
                if x not in out:
                    out.append(x)
    return out


def normalise(version, met, ans):
    """the legal value an answer selects, or None (the property's matching rule)"""
    vals = G.legal(G.GRAMMARS[version], met)
    a = ans.strip()
    if a == "":
        return ND[version] if ND[version] in vals else None
    for v in vals:
        if v.upper() == a.upper():
            return v
    return None


def task(vkey, all_metrics, bound=None):
    chk = Check("C16")
    sess = Session()
    m, vc = sess.m, sess.vc
    vfloat, gver, prefix = VERSIONS[vkey]
    g_ = G.GRAMMARS[gver]
    label = "v%s %s" % (vkey, "all metrics" if all_metrics else "mandatory")
    if bound is None:
        bound = 2 if C.tier() == "quick" else 3
    sess.it.while_bound = bound
    imod = sess.load("cvss.interactive")
    mod = sess.load("cvss")
    C.set_epoch(1)
    sess.begin(imod)
    O.abstract_scores(sess, mod, gver)
    sess._abs4 = True
    answers = {}  # (metric, retry) -> (var, alphabet)
    calls = []

    def input_fn(it, pc):
        fr = it.frames[-1]
        met = fr.locals.get("metric")
        if isinstance(met, U):
            cands = [leaf for g, leaf in met.alts if not vc.c_is_false(vc.c_andg(pc, g))]
            if len(cands) == 1:
                met = cands[0]
        if not isinstance(met, str) or met not in dict(g_["metrics"]):
            raise C.Unsupported("cannot tell which metric input() is asked for (no local 'metric')")
        r = len([k for k in answers if k[0] == met])
        alpha = answer_alphabet(gver, met)
        var = m.new_var("ans.%s.%d" % (met, r), list(range(len(alpha))))
        answers[(met, r)] = (var, alpha)
        calls.append((met, r, pc))
        return vc.from_var(var, lambda i: alpha[i])

    sess.it.input_fn = input_fn
    nocol = m.new_var("no_colors", [False, True])

    def script(model):
        out = []
        for (met, r), (var, alpha) in sorted(answers.items(), key=lambda kv: (list(dict(g_["metrics"])).index(kv[0][0]), kv[0][1])):
            out.append([met, r, alpha[model[var.name]]])
        return out

    def mk_replay(model, what):
        return {"kind": "c16", "version": vkey, "all_metrics": all_metrics, "no_colors": bool(model.get("no_colors", True)), "answers": script(model), "what": what}

    res, raised = sess.call(imod.globals["ask_interactively"], [vfloat, all_metrics, vc.from_var(nocol)])
    cut = vc.CF
    for cond, exc in raised:
        if isinstance(exc, UnwindCut):
            cut = vc.c_or(cut, cond)
        else:
            nm = type(exc).__name__ if isinstance(exc, BaseException) else exc.cls.name
            O.must_not(sess, chk, vc.c_any(cond), "%s: ask_interactively raises %s" % (label, nm), mk_replay)
    assume = m.NOT(cut.l)
    res = O.feasible_part(sess, res)
    if isinstance(res, U):
        ss = [(g, l) for g, l in res.alts if isinstance(l, StructStr)]
        for g, l in res.alts:
            if not isinstance(l, StructStr):
                O.must_not(sess, chk, m.AND(assume, g), "%s: ask_interactively returns %r" % (label, l), mk_replay)
        if len(ss) != 1:
            raise C.Unsupported("ask_interactively returned %r" % (res,))
        res = ss[0][1]
    if not isinstance(res, StructStr):
        raise C.Unsupported("ask_interactively returned %r" % (res,))
    expected = [met for met, _ in g_["metrics"] if all_metrics or met in g_["mandatory"]]
    chunks = [c for c in res.chunks if m.find(c[0]) is not m.FALSE]
    idx = 0
    if prefix:
        if not chunks:
            O.must_not(sess, chk, assume, "%s: result has a prefix" % label, mk_replay)
        else:
            g0, s0 = chunks[0]
            O.must_not(sess, chk, m.AND(assume, m.NOT(m.AND(g0, vc.guard_eq(s0, prefix)))), "%s: result starts with %s" % (label, prefix), mk_replay)
            idx = 1
    # which metric does each chunk carry
    seen = {}
    for g, s in chunks[idx:]:
        mets = set()
        for ga, leaf in vc.alts(s):
            parts = leaf.split(":") if isinstance(leaf, str) else []
            if len(parts) != 2 or parts[0] not in expected or parts[1] not in G.legal(g_, parts[0]):
                O.must_not(sess, chk, m.AND(assume, m.AND(g, ga)), "%s: result contains %r (not an answered metric with a legal value)" % (label, leaf), mk_replay)
            else:
                mets.add(parts[0])
        if len(mets) == 1:
            met = mets.pop()
            if met in seen:
                O.must_not(sess, chk, m.AND(assume, m.AND(g, seen[met][0])), "%s: %s appears twice in the result" % (label, met), mk_replay)
            else:
                seen[met] = (g, s)
        elif mets:
            O.must_not(sess, chk, m.AND(assume, g), "%s: one result position carries several metrics %r" % (label, sorted(mets)), mk_replay)
    order = [k for k in seen]
    for met in expected:
        if met not in seen:
            O.must_not(sess, chk, assume, "%s: %s is asked and part of the result" % (label, met), mk_replay)
            continue
        g, s = seen[met]
        O.must_not(sess, chk, m.AND(assume, m.NOT(g)), "%s: %s always part of the result" % (label, met), mk_replay)
        # the value is the first legal answer, normalised
        rs = sorted(r for (mm, r) in answers if mm == met)
        if not rs:
            O.must_not(sess, chk, assume, "%s: %s is asked" % (label, met), mk_replay)
            continue
        not_before = m.TRUE
        want = {}
        for r in rs:
            var, alpha = answers[(met, r)]
            for i, a in enumerate(alpha):
                v = normalise(gver, met, a)
                if v is not None:
                    c = m.AND(not_before, m.atom(var, i))
                    want[v] = m.OR(want[v], c) if v in want else c
            legal_r = m.or_all([m.atom(var, i) for i, a in enumerate(alpha) if normalise(gver, met, a) is not None])
            not_before = m.AND(not_before, m.NOT(legal_r))
        for v in G.legal(g_, met):
            got = vc.guard_eq(s, met + ":" + v)
            O.must_not(sess, chk, m.AND(assume, m.XOR(got, want.get(v, m.FALSE))), "%s: %s:%s is returned exactly when it is the first legal answer (case-insensitive, empty = Not Defined)" % (label, met, v), mk_replay)
            # selectability
            r = m.is_sat(m.AND(assume, got), "vacuity")
            if r is False:
                def mk_sel(model, what, met=met, v=v):
                    return {"kind": "c16_select", "version": vkey, "all_metrics": all_metrics, "metric": met, "value": v, "what": what, "finding_key": "v%s.interactive.unselectable.%s:%s" % (vkey, met, v)}
                chk.add_vc("%s: value %s:%s can be selected" % (label, met, v), "sat", 0, 0)
                chk.counterexamples.append({"vc": "%s: value %s:%s can be selected" % (label, met, v), "replay": mk_sel(None, "no answer selects it")})
            elif r is None:
                chk.inconclusive.append("selectability of %s:%s unknown" % (met, v))
    for met in seen:
        if met not in expected:
            O.must_not(sess, chk, m.AND(assume, seen[met][0]), "%s: %s is in the result although it is not asked for" % (label, met), mk_replay)
    # the class accepts it
    cls = mod.globals["CVSS%d" % gver]
    obj, raised2 = sess.call(cls, [res])
    for cond, exc in raised2:
        nm = type(exc).__name__ if isinstance(exc, BaseException) else exc.cls.name
        O.must_not(sess, chk, m.AND(assume, vc.c_any(cond)), "%s: the class rejects the returned vector (%s)" % (label, nm), mk_replay)
    # C08: official pattern
    from . import jsonprops

    fake_vars = {}
    if gver == 3:
        mv = m.new_var("minor_of_result", [vkey[-1]])
        fake_vars["minor"] = mv
    acc = jsonprops.pattern_accepts(sess, gver, fake_vars, res)
    O.must_not(sess, chk, m.AND(assume, m.NOT(acc)), "%s: the returned vector conforms to the official vectorString pattern" % label, mk_replay)
    # every question is asked at most bound+1 times on the explored paths; the cut is satisfiable
    chk.extra["input_calls_%s" % label] = len(calls)
    chk.extra["unwinding_bound"] = bound
    w = m.pattern_assignment(0)
    chk.witnesses.append({"task": label, "answers": script(w)[:6], "result": sess.concretize(res, w) if m.eval_nodes([assume], w)[0] else "<cut path>"})
    chk.bounds = []
    chk.absorb(sess)
    return chk.to_dict()


def c08_tasks():
    """the interactive builder's result is one of the emitted strings of C08: the same sessions
    (they check acceptance by the class and the official pattern among other things)"""
    # (retry bound 2 in both tiers: the deeper bound of the thorough tier is C16's business)
    return [("task", (v, a, 2)) for v in ("2", "3.0", "3.1", "4.0") for a in (False, True)]


def main():
    chk = Check("C16")
    tasks = [("task", (v, a)) for v in ("2", "3.0", "3.1", "4.0") for a in (False, True)]
    for r in C.run_named_tasks("harness.interactive", tasks):
        chk.absorb_dict(r)
    # free-answer lemma: one iteration of the question loop for an ARBITRARY typed answer (solver
    # string theory), per metric; tasks of 4 metrics each
    ftasks = []
    for gver in (2, 3, 4):
        mets = [met for met, _ in G.GRAMMARS[gver]["metrics"]]
        for i in range(0, len(mets), 4):
            ftasks.append(("task_ANS", (gver, mets[i:i + 4])))
    for r in C.run_named_tasks("harness.freestr", ftasks):
        chk.absorb_dict(r)
    b = chk.extra.get("unwinding_bound")
    chk.input_model = "M-ANSWERS: per (metric, retry) one answer variable over a finite alphabet (every legal value in 4 letter cases and padded; empty; Not-Defined spellings; garbage); print logged, input() stubbed; versions 2, 3.0, 3.1, 4.0 x {mandatory, all}; no_colors symbolic"
    chk.input_model += ("; free-answer lemma ANS: the real body of the question loop executed path by path over z3 string terms for ONE ARBITRARY answer per metric (68 metrics), compared with a "
                        "regular-expression oracle (case-insensitive legal value, or empty where Not Defined is legal)")
    chk.bounds = ["free-answer lemma: the answer enters through answer.strip() (CPython's strip trusted); str.upper() encoded for stripped answers of at most 8 characters below U+0080 - longer and non-ASCII answers are outside the lemma",
                  "while-loops unrolled: at most %s rejected answers per question; paths needing more are excluded (unwinding assumption); a rejected answer changes no state (the loop body only appends on acceptance), so further retries repeat the same step" % b,
                  "answers from the finite alphabet above; Unicode case folding of non-ASCII answers is outside the claim"]
    chk.stubs = ["print: logged", "input()/raw_input(): next answer variable", "compute_*_score: arbitrary (only acceptance by the class is used)"]
    chk.assumptions = ["the stub identifies the metric being asked from the local variable 'metric' of ask_interactively"]
    C.finish(chk)


if __name__ == "__main__":
    main()
