"""
Free-string lemmas: the real parser code executed by the forking string executor
(pysymex/strsym.py) with the field / the whole vector / the typed answer being ONE ARBITRARY
STRING of the solver's string theory - no alphabet.

 L4F  loop body of parse_vector on an arbitrary '/'-free field from an arbitrary metric map:
      rejected with the version's malformed-vector error exactly when the field is not a legal
      literal of a metric not yet present; otherwise the map gains exactly that entry.      (C04)
 L2F  code of parse_vector before the loop on an arbitrary vector string: raises only the
      malformed-vector error and only for strings outside the grammar; otherwise the loop iterates
      over exactly the '/'-pieces after a legal prefix (v3: the minor version is that of the
      prefix).                                                                               (C04)
 ANS  one iteration of the question loop of ask_interactively for an arbitrary typed answer:
      accepted exactly when it is (case-insensitively, surrounding white space ignored) a legal
      value of the metric or empty where Not Defined is legal; the standard spelling is appended. (C16)

Every path of the executed block yields one z3 query (path condition & assumptions & negated
expectation); all unsat = the lemma holds for every string.  sat -> concrete string -> replayed on
the real library.  unknown / unsupported construct -> inconclusive.
"""

import ast
import importlib
import inspect
import os
import sys
import textwrap
import time

import z3

from pysymex import strsym as S

from . import common as C
from .common import Check

ERR = {2: "CVSS2", 3: "CVSS3", 4: "CVSS4"}


def real_module(name):
    """the module of the tree under analysis (stdlib-only, importable under the tooling python)"""
    if C.REPO not in sys.path:
        sys.path.insert(0, C.REPO)
    for k in [k for k in sys.modules if k == "cvss" or k.startswith("cvss.")]:
        f = getattr(sys.modules[k], "__file__", "") or ""
        if not f.startswith(C.REPO):
            del sys.modules[k]
    return importlib.import_module(name)


def grammar(version):
    from spec import grammar as G

    return G.GRAMMARS[version]


def func_ast(fn):
    src = textwrap.dedent(inspect.getsource(fn))
    node = ast.parse(src).body[0]
    first = fn.__code__.co_firstlineno
    return node, (first, first + node.end_lineno - node.lineno)


def locate(version):
    mod = real_module("cvss.cvss%d" % version)
    cls = getattr(mod, "CVSS%d" % version)
    fn = cls.parse_vector
    node, lines = func_ast(fn)
    idx = None
    for i, st in enumerate(node.body):
        if isinstance(st, ast.For):
            idx = i
            break
    if idx is None:
        raise S.Unsupported("parse_vector has no top-level for loop")
    return mod, cls, fn, node, idx, lines


def fresh_self(ex, cls, vector_value):
    """the object as __init__ leaves it right before it calls parse_vector(): the statements of
    the real __init__ up to that call are executed by the string executor"""
    init = cls.__init__
    node, lines = func_ast(init)
    ex.encoded["%s:%s (statements before parse_vector())" % (init.__module__, init.__qualname__)] = lines
    obj = S.Obj(cls)
    env = {"self": obj, node.args.args[1].arg: vector_value, "$globals": init.__globals__}
    for st in node.body:
        if isinstance(st, ast.Expr) and isinstance(st.value, ast.Call) and isinstance(st.value.func, ast.Attribute) and st.value.func.attr == "parse_vector":
            return obj
        ex.exec_stmt(st, env)
    raise S.Unsupported("__init__ does not call parse_vector()")


def malformed_cls(version):
    X = real_module("cvss.exceptions")
    return getattr(X, "%sMalformedError" % ERR[version])


def timeout_ms():
    return 60000 if C.tier() == "quick" else 300000


def budget_s():
    """wall-clock budget of one lemma's path exploration (beyond it: inconclusive)"""
    return 420 if C.tier() == "quick" else 3000


def second_solver(chk, decider, label):
    """thorough tier: every query of the lemma, as SMT-LIB2 text, re-decided by cvc5 (python
    wheel of the tooling venv is not scriptable on text: the binary is used)"""
    import subprocess
    import tempfile

    if C.tier() != "thorough" or not decider.smt2:
        return
    agree = 0
    other = {}
    for name, text in decider.smt2[:60]:
        fd, path = tempfile.mkstemp(prefix="verif_str_", suffix=".smt2", dir="/var/tmp")
        os.close(fd)
        try:
            with open(path, "w") as f:
                f.write("(set-logic ALL)\n" + text)
            try:
                p = subprocess.run(["cvc5", "--strings-exp", "--tlimit=60000", path], capture_output=True, text=True, timeout=90)
                out = (p.stdout.strip().splitlines() or ["no output"])[0]
                if "(error" in p.stdout or "error" in p.stderr.lower():
                    out = "error"
            except subprocess.TimeoutExpired:
                out = "timeout"
        finally:
            os.unlink(path)
        if out == "unsat":
            agree += 1
        else:
            other[out] = other.get(out, 0) + 1
            if out == "sat":
                chk.harness_errors.append("%s: cvc5 answers sat on a query z3 proved unsat (%s)" % (label, name))
    chk.extra.setdefault("second_solver_cvc5", []).append({"lemma": label, "queries": len(decider.smt2[:60]), "unsat_too": agree, "other": other})


class Lemma(object):
    """bookkeeping shared by the lemmas: queries -> verification conditions of the Check"""

    def __init__(self, chk, label, assume):
        self.chk = chk
        self.label = label
        self.assume = list(assume)
        self.dec = S.Decider(timeout_ms=timeout_ms(), seed=C.seed())
        self.feasible_by_outcome = {}
        self.deadline = time.time() + budget_s() + 300

    def must_be_unsat(self, path, extra, name, mk_replay):
        """pc & assumptions & extra must be unsatisfiable"""
        res, model, dt = self.dec.check(self.assume + path.pc + list(extra), "string-verdict", name=name, keep=True)
        vcname = "%s: %s" % (self.label, name)
        self.chk.add_vc(vcname, res, dt, len(path.pc))
        if res == "sat":
            if len(self.chk.counterexamples) < 4:
                self.chk.counterexamples.append({"vc": vcname, "replay": mk_replay(model, vcname)})
            return model
        return None

    def determined(self, path, term):
        """the unique value of `term` on this path, if the solver proves it unique (then the
        term may be replaced by that constant in every query about the path), else None"""
        res, model, _ = self.dec.check(self.assume + path.pc, "string-feasibility")
        if res != "sat":
            return None
        c = model.eval(term, model_completion=True)
        res2, _, _ = self.dec.check(self.assume + path.pc + [term != c], "string-uniqueness")
        return c if res2 == "unsat" else None

    def must_be_unsat_subst(self, path, extra, name, mk_replay, term):
        """as must_be_unsat; when `term` is determined on the path (solver-proved) the query is
        asked with the constant substituted, which folds the grammar tables"""
        c = self.determined(path, term)
        if c is None:
            return self.must_be_unsat(path, extra, name, mk_replay)
        cons = [z3.simplify(z3.substitute(x, (term, c))) for x in self.assume + path.pc + list(extra)]
        res, model, dt = self.dec.check(cons + [term == c], "string-verdict", name=name, keep=True)
        vcname = "%s: %s" % (self.label, name)
        self.chk.add_vc(vcname, res, dt, len(path.pc))
        if res == "sat":
            if len(self.chk.counterexamples) < 4:
                self.chk.counterexamples.append({"vc": vcname, "replay": mk_replay(model, vcname)})
            return model
        return None

    def must_be_unsat_cases(self, path, term, cases, name, mk_replay):
        """pc & assumptions & OR_i (term == c_i & extra_i) must be unsatisfiable: decided case by
        case with the constant substituted for the term (ground string operations fold away, what
        is left are equalities over the state variables)"""
        t0 = time.time()
        worst = "unsat"
        model = None
        base = z3.And(self.assume + path.pc) if (self.assume + path.pc) else z3.BoolVal(True)
        for c, extra in cases:
            q = z3.simplify(z3.substitute(z3.And(base, extra), (term, c)))
            if z3.is_false(q):
                d = self.dec.by_kind.setdefault("string-verdict-case-folded", {})
                d["unsat"] = d.get("unsat", 0) + 1
                continue
            if time.time() > self.deadline:
                worst = "unknown"
                self.chk.inconclusive.append("%s: time budget of the lemma exceeded" % self.label)
                break
            res, mdl, _ = self.dec.check([q, term == c], "string-verdict-case", name=name)
            if res == "sat":
                worst, model = "sat", mdl
                break
            if res != "unsat":
                worst = "unknown"
        vcname = "%s: %s" % (self.label, name)
        self.chk.add_vc(vcname, worst, time.time() - t0, len(path.pc))
        if worst == "sat":
            if len(self.chk.counterexamples) < 4:
                self.chk.counterexamples.append({"vc": vcname, "replay": mk_replay(model, vcname)})
            return model
        return None

    def is_feasible(self, path):
        res, model, dt = self.dec.check(self.assume + path.pc, "string-feasibility")
        return res, model


def describe_outcome(o):
    if o[0] == "raise":
        return "raise %s" % type(o[1]).__name__
    return o[0]


# -------------------------------------------------------------------------------------------------
# L4F
# -------------------------------------------------------------------------------------------------


def _task_L4F(version):
    chk = Check("C04")
    label = "v%d L4F (free field)" % version
    g = grammar(version)
    table = [(met, list(vals)) for met, vals in g["metrics"]]
    mod, cls, fn, node, idx, lines = locate(version)
    for_node = node.body[idx]
    MAL = malformed_cls(version)
    ex = S.Executor(mod)
    ex.deadline = time.time() + budget_s()
    ex.encoded["%s:%s (loop body)" % (fn.__module__, fn.__qualname__)] = (lines[0] + for_node.lineno - node.lineno, lines[0] + for_node.end_lineno - node.lineno)
    f = z3.String("field")
    V = z3.String("vector")
    state = S.SymMap([m for m, _ in table], "st")
    assume = [z3.Not(z3.Contains(f, z3.StringVal("/")))]
    for met, vals in table:
        assume.append(z3.Implies(state.has[met], z3.Or([state.val[met] == z3.StringVal(v) for v in vals])))
    ex.assume = assume
    lem = Lemma(chk, label, assume)

    def run(ex):
        obj = fresh_self(ex, cls, S.SStr(V))
        st = S.SymMap([m for m, _ in table], "st")
        obj.attrs["metrics"] = st
        env = {"self": obj, "$globals": fn.__globals__}
        ex.assign(for_node.target, S.SStr(f), env)
        ex.path.state = st
        ex.path.obj = obj
        try:
            ex.exec_block(for_node.body, env)
        except S._Continue:
            pass
        return ("normal",)

    def mk_replay(model, what):
        fields = []
        for met, vals in table:
            if z3.is_true(model.eval(state.has[met], model_completion=True)):
                fields.append(met + ":" + S.py_string(model, state.val[met]))
        return {"kind": "parse_step", "version": version, "state_fields": fields, "field": S.py_string(model, f), "what": what}

    t0 = time.time()
    paths = ex.explore(run)
    # grammar step
    lit = {(met, v): f == z3.StringVal(met + ":" + v) for met, vals in table for v in vals}
    ok = z3.Or([z3.And(c, z3.Not(state.has[met])) for (met, v), c in lit.items()])
    outcomes = {}
    # accepting paths first: a wrongly accepted string is found there, quickly
    paths.sort(key=lambda q: {"normal": 0, "break": 1, "return": 1, "unsupported": 2}.get(q.outcome[0], 3))
    for p in paths:
        o = p.outcome
        outcomes[describe_outcome(o)] = outcomes.get(describe_outcome(o), 0) + 1
        if time.time() > lem.deadline:
            chk.inconclusive.append("%s: time budget of the lemma exceeded" % label)
            break
        if o[0] == "unsupported":
            res, _ = lem.is_feasible(p)
            if res != "unsat":
                chk.inconclusive.append("%s: unsupported construct on a feasible path: %s" % (label, o[1]))
            continue
        if o[0] == "raise":
            if not isinstance(o[1], MAL):
                lem.must_be_unsat(p, [], "loop body raises %s (not the version's malformed-vector error)" % type(o[1]).__name__, mk_replay)
                continue
            lem.must_be_unsat_cases(p, f, [(z3.StringVal(met + ":" + v), z3.Not(state.has[met])) for met, vals in table for v in vals],
                                    "field rejected although it is a legal literal of a metric not seen yet", mk_replay)
            continue
        if o[0] in ("break", "return"):
            lem.must_be_unsat(p, [], "loop body leaves the loop by %s" % o[0], mk_replay)
            continue
        # normal completion: the field must be acceptable and the map must be the old map + entry
        st = p.state
        if st.foreign:
            lem.must_be_unsat(p, [], "a key that is no metric of the version is stored in the metric map", mk_replay)
            continue
        good = [ok]
        for met, vals in table:
            newly = z3.Or([lit[(met, v)] for v in vals])
            good.append(st.has_z(met) == z3.Or(state.has[met], newly))
            want_val = state.val[met]
            for v in vals:
                want_val = z3.If(lit[(met, v)], z3.StringVal(v), want_val)
            good.append(z3.Implies(z3.Or(state.has[met], newly), st.val_z(met) == want_val))
        lem.must_be_unsat_subst(p, [z3.Not(z3.And(good))], "accepted field is a legal literal of a new metric and the map gains exactly that entry", mk_replay, f)
    # vacuity: an accepting and a rejecting path are reachable
    for kind in ("normal", "raise"):
        found = None
        for p in paths:
            if p.outcome[0] == kind:
                res, model = lem.is_feasible(p)
                if res == "sat":
                    found = S.py_string(model, f)
                    break
        if found is None:
            chk.harness_errors.append("%s: no feasible %s path (vacuous lemma)" % (label, kind))
        else:
            chk.witnesses.append({"lemma": label, "outcome": kind, "field": found})
    conformance(chk, lem, paths, version, cls, table, state, f, MAL)
    second_solver(chk, lem.dec, label)
    finish_lemma(chk, ex, lem, label, paths, outcomes, time.time() - t0)
    return chk.to_dict()


def conformance(chk, lem, paths, version, cls, table, state, f, MAL):
    """translator validation: for every feasible path one model is run through the REAL
    parse_vector (CPython, the tree under analysis) and must take the path's outcome"""
    head = {2: "", 3: "CVSS:3.1/", 4: "CVSS:4.0/"}[version]
    n = bad = 0
    for p in paths:
        if p.outcome[0] not in ("normal", "raise"):
            continue
        res, model = lem.is_feasible(p)
        if res != "sat":
            continue
        fields = []
        for met, vals in table:
            if z3.is_true(model.eval(state.has[met], model_completion=True)):
                fields.append(met + ":" + S.py_string(model, state.val[met]))
        fv = S.py_string(model, f)
        vec = head + "/".join(fields + [fv])
        o = cls.__new__(cls)
        try:
            _init_before_parse(o, cls, vec)
            o.parse_vector()
            got = "normal"
        except Exception as e:  # noqa: BLE001
            got = "raise %s" % type(e).__name__
        want = describe_outcome(p.outcome)
        n += 1
        if fv == "":
            continue  # an empty last field is a trailing '/': rejected before the loop is reached
        if got != want:
            bad += 1
            chk.harness_errors.append("translator validation: real parse_vector(%r) -> %s, executor path -> %s" % (vec, got, want))
    chk.conformance["patterns"] += n
    chk.conformance["vectors"] += n
    chk.conformance["mismatches"] += bad


def _init_before_parse(o, cls, vec):
    """run the real __init__ up to (not including) parse_vector()"""
    node, _ = func_ast(cls.__init__)
    body = []
    for st in node.body:
        if isinstance(st, ast.Expr) and isinstance(st.value, ast.Call) and isinstance(st.value.func, ast.Attribute) and st.value.func.attr == "parse_vector":
            break
        body.append(st)
    m = ast.Module(body=body, type_ignores=[])
    ast.fix_missing_locations(m)
    env = dict(cls.__init__.__globals__)
    env["self"] = o
    env[node.args.args[1].arg] = vec
    exec(compile(m, "<init-prefix>", "exec"), env)


def finish_lemma(chk, ex, lem, label, paths, outcomes, wall):
    chk.stats.append(lem.dec.stats())
    for k, v in ex.encoded.items():
        chk.functions_encoded[k] = list(v)
    chk.extra.setdefault("free_string_lemmas", []).append({
        "lemma": label, "paths": len(paths), "outcomes": outcomes, "solver": "z3 %s sequence theory" % z3.get_version_string(),
        "pruning_queries": ex.prune_queries, "pruning_time_s": round(ex.prune_time, 2), "verdict_time_s": round(lem.dec.time, 2), "wall_s": round(wall, 2),
        "bounds": sorted(ex.bounds_used) + ["characters: z3's code point range (U+0000 - U+2FFFF); no length bound"],
    })
    for p, src in ((C.REPO + "/cvss/cvss2.py", None), (C.REPO + "/cvss/cvss3.py", None), (C.REPO + "/cvss/cvss4.py", None), (C.REPO + "/cvss/interactive.py", None)):
        if os.path.exists(p):
            import hashlib

            chk.files[os.path.relpath(p, C.REPO)] = hashlib.sha256(open(p, "rb").read()).hexdigest()


# -------------------------------------------------------------------------------------------------
# L2F
# -------------------------------------------------------------------------------------------------


def _task_L2F(version):
    chk = Check("C04")
    label = "v%d L2F (free vector, code before the loop)" % version
    mod, cls, fn, node, idx, lines = locate(version)
    for_node = node.body[idx]
    pre = node.body[:idx]
    MAL = malformed_cls(version)
    ex = S.Executor(mod)
    ex.deadline = time.time() + budget_s()
    ex.encoded["%s:%s (statements before the loop)" % (fn.__module__, fn.__qualname__)] = (lines[0], lines[0] + for_node.lineno - node.lineno)
    V = z3.String("vector")
    heads = {2: [], 3: ["CVSS:3.0", "CVSS:3.1"], 4: ["CVSS:4.0"]}[version]
    lem = Lemma(chk, label, [])
    slash = z3.StringVal("/")

    def run(ex):
        obj = fresh_self(ex, cls, S.SStr(V))
        env = {"self": obj, "$globals": fn.__globals__}
        ex.path.obj = obj
        ex.exec_block([st for st in pre if not (isinstance(st, ast.Expr) and isinstance(st.value, ast.Constant))], env)
        ex.path.iter = ex.eval(for_node.iter, env)
        return ("loop",)

    def mk_replay(model, what):
        return {"kind": "parse_pre", "version": version, "vector": S.py_string(model, V), "what": what}

    t0 = time.time()
    paths = ex.explore(run)
    i0 = z3.IndexOf(V, slash, 0)
    first = z3.If(i0 >= 0, z3.SubString(V, 0, i0), V)
    legal_head = z3.Or([z3.PrefixOf(z3.StringVal(h + "/"), V) for h in heads]) if heads else z3.BoolVal(True)
    outside = z3.Or(V == z3.StringVal(""), z3.SuffixOf(slash, V), z3.Not(legal_head))
    outcomes = {}
    for p in paths:
        o = p.outcome
        outcomes[describe_outcome(o)] = outcomes.get(describe_outcome(o), 0) + 1
        if o[0] == "unsupported":
            res, _ = lem.is_feasible(p)
            if res != "unsat":
                chk.inconclusive.append("%s: unsupported construct on a feasible path: %s" % (label, o[1]))
            continue
        if o[0] == "raise":
            if not isinstance(o[1], MAL):
                lem.must_be_unsat(p, [], "code before the loop raises %s (not the version's malformed-vector error)" % type(o[1]).__name__, mk_replay)
            else:
                lem.must_be_unsat(p, [z3.Not(outside)], "rejected before the loop although the string is not empty, has no trailing '/' and starts with a legal prefix", mk_replay)
            continue
        if o[0] != "loop":
            lem.must_be_unsat(p, [], "parse_vector ends by %s before the field loop" % o[0], mk_replay)
            continue
        it = p.iter
        want_start = 0 if version == 2 else 1
        if not (isinstance(it, S.SSplit) and it.sep == "/" and it.start == want_start and z3.eq(it.s.z, V)):
            res, _ = lem.is_feasible(p)
            if res != "unsat":
                chk.inconclusive.append("%s: the loop does not iterate over vector.split('/')[%d:] (%s): not understood" % (label, want_start, type(it).__name__))
            continue
        if version != 2:
            lem.must_be_unsat(p, [z3.Not(z3.Or([first == z3.StringVal(h) for h in heads]))], "a string reaches the field loop whose first '/'-piece is not a legal prefix", mk_replay)
        if version == 3:
            mv = p.obj.attrs.get("minor_version")
            if isinstance(mv, int) and not isinstance(mv, bool) and mv in (0, 1):
                lem.must_be_unsat(p, [first != z3.StringVal("CVSS:3.%d" % mv)], "minor_version %d recorded for another prefix" % mv, mk_replay)
            else:
                lem.must_be_unsat(p, [], "minor_version is %r at the field loop" % (mv,), mk_replay)
        md = p.obj.attrs.get("metrics")
        if not (isinstance(md, S.LocalDict) and md.d == {}):
            lem.must_be_unsat(p, [], "the metric map is not empty at the field loop", mk_replay)
    found = {}
    for p in paths:
        k = p.outcome[0]
        if k in ("loop", "raise") and k not in found:
            res, model = lem.is_feasible(p)
            if res == "sat":
                found[k] = S.py_string(model, V)
    for kind in ("loop", "raise"):
        if kind not in found:
            chk.harness_errors.append("%s: no feasible %s path (vacuous lemma)" % (label, kind))
        else:
            chk.witnesses.append({"lemma": label, "outcome": kind, "vector": found[kind]})
    second_solver(chk, lem.dec, label)
    finish_lemma(chk, ex, lem, label, paths, outcomes, time.time() - t0)
    return chk.to_dict()


def _declining(fn, label):
    def run(*args):
        try:
            return fn(*args)
        except S.Unsupported as e:
            return {"inconclusive": ["%s %r: the string executor declines: %s" % (label, args, e)]}

    return run


task_L4F = _declining(_task_L4F, "L4F")
task_L2F = _declining(_task_L2F, "L2F")


# -------------------------------------------------------------------------------------------------
# ANS (C16): one iteration of the question loop for an arbitrary typed answer
# -------------------------------------------------------------------------------------------------


def _ci(word):
    """case-insensitive regular expression of an ASCII word"""
    parts = []
    for ch in word:
        lo, up = ch.lower(), ch.upper()
        parts.append(z3.Re(lo) if lo == up else z3.Union(z3.Re(lo), z3.Re(up)))
    return z3.Concat(*parts) if len(parts) > 1 else parts[0]


def _task_ANS(version, metrics_subset=None):
    chk = Check("C16")
    vnum = {2: 2, 3: 3.1, 4: 4.0}[version]
    label0 = "v%d ANS (free answer)" % version
    imod = real_module("cvss.interactive")
    cmod = real_module("cvss.constants%d" % version)
    fn = imod.ask_interactively
    node, lines = func_ast(fn)
    for_node = None
    for st in node.body:
        if isinstance(st, ast.For) and any(isinstance(x, ast.While) for x in st.body):
            for_node = st
    if for_node is None:
        raise S.Unsupported("ask_interactively has no 'for metric' loop containing a while loop")
    widx = [i for i, x in enumerate(for_node.body) if isinstance(x, ast.While)][0]
    while_node = for_node.body[widx]
    g = grammar(version)
    table = dict((met, list(vals)) for met, vals in g["metrics"])
    nd = "ND" if version == 2 else "X"
    raw = S.RawStr("answer")
    a = raw.core  # the stripped answer: any string without leading / trailing white space
    t0 = time.time()
    total_paths = 0
    outcomes = {}
    ex = S.Executor(imod)
    ex.deadline = time.time() + budget_s()
    ex.encoded["%s:%s (body of the question loop)" % (fn.__module__, fn.__qualname__)] = (lines[0] + while_node.lineno - node.lineno, lines[0] + while_node.end_lineno - node.lineno)
    lem = Lemma(chk, label0, [])
    lem.dec.first_ms = min(lem.dec.timeout_ms, 40000)
    metrics = [m for m, _ in g["metrics"]]
    if metrics_subset is not None:
        metrics = [m for m in metrics if m in metrics_subset]
    for metric in metrics:
        label = "%s %s" % (label0, metric)
        lem.label = label
        legal = table[metric]

        def run(ex, metric=metric):
            vector = []
            glob = dict(fn.__globals__)
            glob["string_input"] = lambda: raw
            env = {"version": vnum, "all_metrics": True, "no_colors": True, "vector": vector, "$globals": glob,
                   "METRICS_ABBREVIATIONS": cmod.METRICS_ABBREVIATIONS, "METRICS_MANDATORY": cmod.METRICS_MANDATORY, "METRICS_VALUE_NAMES": cmod.METRICS_VALUE_NAMES}
            ex.assign(for_node.target, metric, env)
            ex.exec_block(for_node.body[:widx], env)
            ex.path.vector = vector
            try:
                ex.exec_block(while_node.body, env)
            except S._Continue:
                pass
            return ("normal",)

        def mk_replay(model, what, metric=metric):
            return {"kind": "c16_answer", "version": version, "metric": metric, "answer": S.py_string(model, a), "what": what}

        paths = ex.explore(run)
        total_paths += len(paths)
        # independent oracle (regular expressions; no case-mapping or strip encoding involved)
        match = {v: z3.InRe(a, _ci(v)) for v in legal}
        if nd in legal:
            match[nd] = z3.Or(match[nd], a == z3.StringVal(""))
        accept = z3.Or(list(match.values()))
        for p in paths:
            o = p.outcome
            outcomes[describe_outcome(o)] = outcomes.get(describe_outcome(o), 0) + 1
            if o[0] == "unsupported":
                res, _ = lem.is_feasible(p)
                if res != "unsat":
                    chk.inconclusive.append("%s: unsupported construct on a feasible path: %s" % (label, o[1]))
                continue
            if o[0] == "raise":
                lem.must_be_unsat(p, [], "the question loop raises %s" % type(o[1]).__name__, mk_replay)
                continue
            if o[0] == "return":
                lem.must_be_unsat(p, [], "the question loop returns from the builder", mk_replay)
                continue
            vec = p.vector
            if o[0] == "normal":
                # question repeated: nothing may have been recorded and the answer must be illegal
                if vec:
                    lem.must_be_unsat(p, [], "a rejected answer still appends %r" % (vec,), mk_replay)
                lem.must_be_unsat(p, [accept], "a legal answer (case-insensitive, surrounding white space ignored, empty = Not Defined) is rejected", mk_replay)
                continue
            # break: accepted
            if len(vec) != 1 or not isinstance(vec[0], str):
                if len(vec) == 1 and isinstance(vec[0], S.SStr):
                    want = z3.Or([z3.And(match[v], vec[0].z == z3.StringVal(metric + ":" + v)) for v in legal])
                    lem.must_be_unsat(p, [z3.Not(want)], "an accepted answer records metric:value in the standard's spelling of the matched legal value", mk_replay)
                else:
                    lem.must_be_unsat(p, [], "an accepted answer appends %r" % (vec,), mk_replay)
                continue
            rec = vec[0]
            vals = [v for v in legal if rec == metric + ":" + v]
            if not vals:
                lem.must_be_unsat(p, [], "an accepted answer records %r (no legal value of %s)" % (rec, metric), mk_replay)
            else:
                lem.must_be_unsat(p, [z3.Not(match[vals[0]])], "%r is recorded for an answer that is not that value" % rec, mk_replay)
        # every legal value can be selected (vacuity / selectability): a feasible accepting path per value
        for v in legal:
            ok = False
            for p in paths:
                if p.outcome[0] != "break" or len(p.vector) != 1:
                    continue
                rec = p.vector[0]
                if isinstance(rec, S.SStr):
                    # recorded value is a term (e.g. sliced out of the prompt): selectable if the
                    # path can record exactly metric:v
                    res, model, _ = lem.dec.check(lem.assume + p.pc + [rec.z == z3.StringVal(metric + ":" + v)], "string-feasibility")
                    if res == "sat":
                        ok = True
                        break
                    continue
                if rec == metric + ":" + v:
                    res, model = lem.is_feasible(p)
                    if res == "sat":
                        ok = True
                        if len(chk.witnesses) < 6:
                            chk.witnesses.append({"lemma": label, "value": v, "answer": S.py_string(model, a)})
                        break
            if not ok:
                chk.harness_errors.append("%s: no feasible accepting path records %s:%s" % (label, metric, v))
        if time.time() > lem.deadline:
            chk.inconclusive.append("%s: time budget exceeded" % label0)
            break
    lem.label = label0
    second_solver(chk, lem.dec, label0)
    finish_lemma(chk, ex, lem, "%s %s..%s" % (label0, metrics[0], metrics[-1]), [None] * total_paths, outcomes, time.time() - t0)
    return chk.to_dict()


task_ANS = _declining(_task_ANS, "ANS")
