"""
Recorder stub for argparse (interpreted by pysymex in place of the real module).  It keeps what
cvss_calculator.main() can observe of a parse: the namespace attributes in registration order
(main() derives the CVSS version from the order of the namespace attributes), defaults, and the
actions store_true / store_false / store_const / store with dest, const and default.  Which
options are on the command line comes from the harness (_flag_present / _flag_argument are
installed by the harness; both may be symbolic).  Options given several times or in an order
other than the registration order are not modelled (for one destination shared by several
options the stub applies them in registration order, as argparse does for a command line written
in that order).
"""


class Namespace(object):
    pass


class _Action(object):
    def __init__(self, names, dest, action, const, default):
        self.names = names
        self.dest = dest
        self.action = action
        self.const = const
        self.default = default


class ArgumentParser(object):
    def __init__(self, description=None, **kwargs):
        self.description = description
        self._acts = []

    def add_argument(self, *names, **kwargs):
        dest = kwargs.get("dest")
        if dest is None:
            for n in names:
                if n.startswith("--"):
                    dest = n[2:].replace("-", "_")
                    break
        if dest is None:
            dest = names[0].lstrip("-").replace("-", "_")
        action = kwargs.get("action")
        if action not in (None, "store", "store_true", "store_false", "store_const"):
            raise NotImplementedError("argparse action " + str(action))
        if "default" in kwargs:
            default = kwargs["default"]
        elif action == "store_true":
            default = False
        elif action == "store_false":
            default = True
        else:
            default = None
        self._acts.append(_Action(names, dest, action, kwargs.get("const"), default))
        return None

    def parse_args(self, args=None):
        ns = Namespace()
        for act in self._acts:
            if not hasattr(ns, act.dest):
                setattr(ns, act.dest, act.default)
        for act in self._acts:
            if act.action == "store_true":
                if _flag_present(act.names[0]):  # noqa: F821
                    setattr(ns, act.dest, True)
            elif act.action == "store_false":
                if _flag_present(act.names[0]):  # noqa: F821
                    setattr(ns, act.dest, False)
            elif act.action == "store_const":
                if _flag_present(act.names[0]):  # noqa: F821
                    setattr(ns, act.dest, act.const)
            else:
                if _flag_present(act.names[0]):  # noqa: F821
                    setattr(ns, act.dest, _flag_argument(act.names[0]))  # noqa: F821
        return ns
