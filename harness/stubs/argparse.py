"""
Recorder stub for argparse (interpreted by pysymex in place of the real module): keeps the
add_argument order - cvss_calculator.main() derives the CVSS version from the order of the
namespace attributes - and returns a namespace whose values come from the harness
(_flag_value is installed by the harness).
"""


class Namespace(object):
    pass


class ArgumentParser(object):
    def __init__(self, description=None, **kwargs):
        self.description = description
        self._dests = []
        self._actions = {}

    def add_argument(self, *names, **kwargs):
        dest = kwargs.get("dest")
        if dest is None:
            for n in names:
                if n.startswith("--"):
                    dest = n[2:].replace("-", "_")
                    break
        if dest is None:
            dest = names[0].lstrip("-").replace("-", "_")
        self._dests.append(dest)
        self._actions[dest] = kwargs.get("action")
        return None

    def parse_args(self, args=None):
        ns = Namespace()
        for dest in self._dests:
            setattr(ns, dest, _flag_value(dest, self._actions[dest]))  # noqa: F821
        return ns
