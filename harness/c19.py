"""
C19 (the parts a solver-based check can decide): results independent of the ambient decimal
context; frame condition on process-global state over every path of constructors, accessors,
from_rh_vector, the parse loop (accepting and rejecting paths) and the text extractor; no output
outside the CLI / interactive modules.  Thread schedules and whole histories are not explored:
they follow from the frame condition by a written non-interference argument (DESIGN.md section 8).
"""

import decimal
import sys
import types

from pysymex.interp import ClassVal, ModuleVal, NativeHandler

from . import common as C
from . import objects as O
from .common import ABSENT, G, U, Check, Cond, Obj, Opaque, Session, StructStr, SymDict, SymList, Unsupported, unsat_or_cex
from .scores import split_tasks

QUICK_CONTEXTS = [("ROUND_UP", 28), ("ROUND_DOWN", 28), ("ROUND_HALF_EVEN", 60)]
THOROUGH_CONTEXTS = [(r, p) for r in ("ROUND_UP", "ROUND_DOWN", "ROUND_CEILING", "ROUND_FLOOR", "ROUND_HALF_UP", "ROUND_HALF_DOWN", "ROUND_HALF_EVEN", "ROUND_05UP") for p in (28, 50)] + [("ROUND_HALF_EVEN", 200)]
ALLOWED_PRINT_MODULES = {"cvss.interactive", "cvss.cvss_calculator"}


def shared_real_objects(it):
    """ids of real Python objects reachable from the interpreted modules' globals, plus ambient
    singletons: a store into one of these is a store into process-global state"""
    seen = {}
    stack = []
    for mod in it.modules.values():
        if mod.name.startswith("cvss"):
            stack.extend(mod.globals.values())
    import os
    import warnings

    amb = [decimal.getcontext(), sys.path, sys.modules, warnings.filters, os.environ, decimal.DefaultContext, decimal.BasicContext, decimal.ExtendedContext]
    for a in amb:
        seen[id(a)] = a
    while stack:
        x = stack.pop()
        if isinstance(x, (ModuleVal, ClassVal, Obj, SymDict, SymList, StructStr, Opaque, types.ModuleType, type)) or callable(x):
            continue
        if id(x) in seen:
            continue
        if isinstance(x, dict):
            seen[id(x)] = x
            stack.extend(x.values())
        elif isinstance(x, (list, set)):
            seen[id(x)] = x
            stack.extend(x)
        elif isinstance(x, tuple):
            stack.extend(x)
    return seen


def install_ambient_guards(sess):
    """calls that change ambient process state are logged as effects (and not executed)"""
    it = sess.it
    import locale
    import random
    import warnings

    def mk(name):
        def h(it_, args, kwargs, pc):
            it_.log_effect("ambient-call", name, None, pc)
            return None

        return h

    for fn, name in ((decimal.setcontext, "decimal.setcontext"), (warnings.simplefilter, "warnings.simplefilter"), (warnings.filterwarnings, "warnings.filterwarnings"),
                     (random.seed, "random.seed"), (locale.setlocale, "locale.setlocale"), (sys.setrecursionlimit, "sys.setrecursionlimit")):
        it.native_overrides[fn] = mk(name)


def examine_effects(sess, chk, label, shared, mk_replay, since=0):
    """every logged store into pre-existing / process-global state must be unreachable"""
    m, vc = sess.m, sess.vc
    n = 0
    for kind, target, key, pc, epoch in sess.it.effects[since:]:
        if epoch < 1:
            continue
        bad = None
        if kind == "global-store":
            bad = "assignment to module global %s.%s" % (getattr(target, "name", "?"), key)
        elif kind == "ambient-call":
            bad = "call of %s" % target
        elif kind == "attr-store" and isinstance(target, (ClassVal, ModuleVal)):
            bad = "attribute store on %r" % (target,)
        elif kind in ("attr-store", "dict-store", "dict-del", "list-append", "list-store") and getattr(target, "epoch", 1) == 0:
            bad = "%s into an object created at import time" % kind
        elif kind.startswith("native-") and id(target if not isinstance(target, U) else None) in shared:
            bad = "%s on a module-level / ambient %s (%s)" % (kind, type(target).__name__, key if not isinstance(key, U) else "<symbolic key>")
        elif kind.startswith("native-") and isinstance(target, U):
            if any(id(l) in shared for _, l in target.alts):
                bad = "%s on a module-level container" % kind
        if bad is None:
            continue
        n += 1
        O.must_not(sess, chk, vc.c_any(pc), "%s: %s" % (label, bad), mk_replay)
    for pc, args, kwargs, modname in sess.it.outputs:
        if modname not in ALLOWED_PRINT_MODULES:
            n += 1
            O.must_not(sess, chk, vc.c_any(pc), "%s: print() called from %s" % (label, modname), mk_replay)
    return n


def task(version, fixed, label):
    chk = Check("C19")
    sess = Session()
    vars_ = sess.assign_vars(version, fixed=fixed)
    m, vc = sess.m, sess.vc
    install_ambient_guards(sess)
    mod = sess.load("cvss")
    sess.load("cvss.parser")
    shared = shared_real_objects(sess.it)

    def mk_replay(model, what):
        return {"kind": "c19", "version": version, "vector": sess.vector_string(version, model), "what": what}

    partial = None
    try:
        obj, vec, mod = O.make_object(sess, chk, version, vars_, label, abstract4=True)
        C.set_epoch(2)
        for name in ["scores", "severities", "clean_vector", "rh_vector", "__hash__"] + (["temporal_vector", "environmental_vector"] if version in (2, 3) else []):
            O.call_ok(sess, chk, obj, name, label=label, mk_replay=mk_replay)
        for s_ in (False, True):
            for mn in (False, True):
                O.call_ok(sess, chk, obj, "as_json", kwargs={"sort": s_, "minimal": mn}, label=label, mk_replay=mk_replay)
        rh = O.call_ok(sess, chk, obj, "rh_vector", label=label, mk_replay=mk_replay)
        cls = mod.globals["CVSS%d" % version]
        if version != 4:
            sess.call_method(cls, "from_rh_vector", [rh])
        O.eq_cond(sess, obj, obj)
    except Unsupported as e:
        partial = str(e)
    nviol = examine_effects(sess, chk, label, shared, mk_replay)
    if partial is not None and nviol == 0:
        raise Unsupported(partial)
    chk.extra["effects_logged"] = len(sess.it.effects)
    # decimal context independence (v2 / v3 use Decimal arithmetic)
    if version in (2, 3) and partial is None:
        base = O.items_of(O.call_ok(sess, chk, obj, "scores", label=label))
        ctxs = QUICK_CONTEXTS if C.tier() == "quick" else THOROUGH_CONTEXTS
        cls = mod.globals["CVSS%d" % version]
        for rnd, prec in ctxs:
            ctx = decimal.Context(prec=prec, rounding=getattr(decimal, rnd))
            with decimal.localcontext(ctx):
                o2, raised = sess.call(cls, [vec])
                for cond, exc in raised:
                    nm = type(exc).__name__ if isinstance(exc, BaseException) else exc.cls.name
                    O.must_not(sess, chk, vc.c_any(cond), "%s: constructor raises %s under decimal context (%s, prec %d)" % (label, nm, rnd, prec), mk_replay)
                s2 = O.items_of(O.call_ok(sess, chk, o2, "scores", label=label))

            def mk_r(model, what, rnd=rnd, prec=prec):
                r = mk_replay(model, what)
                r["context"] = [rnd, prec]
                return r

            for i, (a, b) in enumerate(zip(base, s2)):
                O.must_hold(sess, chk, O.eq_cond(sess, a, b), "%s: score[%d] the same under ambient decimal context (%s, prec %d)" % (label, i, rnd, prec), mk_r)
        chk.extra["decimal_contexts"] = [list(c) for c in ctxs]
    chk.witnesses.append({"task": label, "vector": sess.vector_string(version, m.pattern_assignment(0))})
    chk.absorb(sess)
    return chk.to_dict()


def task_ctx4(digits, d4=None):
    """v4: the score does not depend on the ambient decimal context.  The real constructor with
    REAL scoring inside one macrovector fork (C02's case split; a seeded sample of forks), once in
    the default context and once per alternative context; z3 decides equality of the scores."""
    try:
        return _task_ctx4(digits, d4)
    except MemoryError:
        why = "memory cap"
    except Exception as e:  # noqa: BLE001
        if "out of memory" not in repr(e):
            raise
        why = "solver out of memory"
    return {"extra": {"v4_context_forks_declined": 1, "v4_context_forks_declined_why": ["%s %r: %s" % ("".join(str(x) for x in digits), d4, why)]}}


def _task_ctx4(digits, d4=None):
    from . import score4

    chk = Check("C19")
    sess = Session(npat=512)
    vars_ = sess.assign_vars(4)
    m, vc = sess.m, sess.vc
    smod, d, e, items = score4.spec_macrovector(sess, vars_)
    g = score4.mv_guard(sess, items, digits)
    label = "v4 real scoring mv=" + "".join(str(x) for x in digits)
    if d4 is not None:
        du, raised = sess.call(smod.globals["distance"], [e, smod.globals["EQ4_MAX"][digits[3]], ["SC", "SI", "SA"]])
        g2 = m.AND(g, m.NOT(m.or_all([vc.guard_eq(du, k) for k in d4[1]]))) if isinstance(d4, tuple) else m.AND(g, vc.guard_eq(du, d4))
        if m.is_sat(g2, "vacuity") is not True:
            chk.absorb(sess)
            return chk.to_dict()
        g = g2
        label += "[d4=%s]" % (d4 if not isinstance(d4, tuple) else "rest")
    m.restrict(g, nsamples=128)
    vec = sess.vector_from_vars(4, vars_)
    mod = sess.load("cvss")
    C.set_epoch(1)
    cls = mod.globals["CVSS4"]

    def mk_replay(model, what):
        return {"kind": "c19", "version": 4, "vector": sess.vector_string(4, model), "what": what}

    obj, raised = sess.call(cls, [vec])
    base = O.items_of(O.call_ok(sess, chk, obj, "scores", label=label))
    ctxs = [("ROUND_DOWN", 28), ("ROUND_UP", 28)] if C.tier() == "quick" else [(r, 28) for r in ("ROUND_DOWN", "ROUND_UP", "ROUND_FLOOR", "ROUND_CEILING", "ROUND_HALF_DOWN", "ROUND_05UP")] + [("ROUND_HALF_EVEN", 60)]
    for rnd, prec in ctxs:
        ctx = decimal.Context(prec=prec, rounding=getattr(decimal, rnd))
        with decimal.localcontext(ctx):
            o2, raised = sess.call(cls, [vec])
            for cond, exc in raised:
                nm = type(exc).__name__ if isinstance(exc, BaseException) else exc.cls.name
                O.must_not(sess, chk, vc.c_any(cond), "%s: constructor raises %s under decimal context (%s, prec %d)" % (label, nm, rnd, prec), mk_replay)
            s2 = O.items_of(O.call_ok(sess, chk, o2, "scores", label=label))

        def mk_r(model, what, rnd=rnd, prec=prec):
            r = mk_replay(model, what)
            r["context"] = [rnd, prec]
            return r

        O.must_hold(sess, chk, O.eq_cond(sess, base[0], s2[0]), "%s: score the same under ambient decimal context (%s, prec %d)" % (label, rnd, prec), mk_r)
    chk.extra["v4_context_forks"] = 1
    chk.absorb(sess)
    return chk.to_dict()


def task_reject_paths(version):
    """frame condition on the rejecting paths: one parse step from an arbitrary state over the
    whole field alphabet, the code around the loop, check_mandatory"""
    from . import parse_lemmas as PL

    chk = Check("C19")
    sess = Session()
    m, vc = sess.m, sess.vc
    install_ambient_guards(sess)
    label = "v%d parse step (accepting and rejecting paths)" % version
    mod, cls, fv, pre, for_node, post = PL.locate(sess, version)
    shared = shared_real_objects(sess.it)
    C.set_epoch(1)
    alphabet = PL.legal_literals(version) + PL.near_misses(version)
    state, svars = PL.arbitrary_state(sess, version, "st")
    slot_var, slot = PL.slot_union(sess, "slot", alphabet)
    obj = PL.fresh_object(sess, cls, StructStr("/", [(m.TRUE, "<vector>")]))
    obj.attrs["metrics"] = state

    def mk_replay(model, what):
        parts = [met + ":" + model["st." + met] for met, _ in G.GRAMMARS[version]["metrics"] if model["st." + met] is not ABSENT]
        return {"kind": "c19", "version": version, "vector": PL_complete(version, parts + [alphabet[model["slot"]]]), "extra_vectors": [PL_complete(version, parts + [alphabet[model["slot"]]] * 2)], "what": what}

    partial = None
    try:
        PL.run_body(sess, fv, for_node, obj, slot)
    except Unsupported as e:
        partial = str(e)
    n = examine_effects(sess, chk, label, shared, mk_replay)
    if partial is not None and n == 0:
        raise Unsupported(partial)
    chk.absorb(sess)
    return chk.to_dict()


def PL_complete(version, fields):
    g = G.GRAMMARS[version]
    have = {f.split(":")[0] for f in fields if ":" in f}
    extra = [mm + ":" + G.legal(g, mm)[0] for mm in g["mandatory"] if mm not in have]
    head = {2: [], 3: ["CVSS:3.1"], 4: ["CVSS:4.0"]}[version]
    return "/".join(head + fields + extra)


def task_extractor(dummy):
    """frame condition and hash-order dependence of the text extractor"""
    from . import textparse as TP
    import re as _re

    chk = Check("C19")
    sess = Session()
    m, vc = sess.m, sess.vc
    install_ambient_guards(sess)
    mod, fv, pat = TP.find_pattern(sess)
    cvssmod = sess.load("cvss")
    shared = shared_real_objects(sess.it)
    C.set_epoch(1)
    sess.begin(mod)
    for v in (2, 3, 4):
        O.abstract_scores(sess, cvssmod, v)
    sess._abs4 = True
    cvars = [m.new_var("cand%d" % i, list(range(len(TP.CANDIDATES)))) for i in range(2)]
    cands = SymList([[vc.CT, vc.from_var(v, lambda i: TP.CANDIDATES[i])] for v in cvars])
    sess.it.native_overrides[(_re.Pattern, "findall")] = lambda it_, recv, args, kwargs, pc: cands

    def mk_replay(model, what):
        return {"kind": "c19", "version": 3, "vector": TP.V31, "texts": [" ; ".join(TP.CANDIDATES[model["cand%d" % i]] for i in range(2))], "what": what}

    partial = None
    try:
        sess.call(fv, [Opaque("text")])
    except Unsupported as e:
        partial = str(e)
    n = examine_effects(sess, chk, "parse_cvss_from_text", shared, mk_replay)
    if partial is not None and n == 0:
        raise Unsupported(partial)
    chk.extra["hash_order_dependent_iterations"] = [k for k, _ in sess.it.hash_order_iterations]
    chk.absorb(sess)
    return chk.to_dict()


def main():
    chk = Check("C19")
    tasks = []
    for version in (2, 3):
        for t in split_tasks(version):
            tasks.append(("task", t))
    tasks.append(("task", (4, {}, "v4[score abstracted]")))
    for v in (2, 3, 4):
        tasks.append(("task_reject_paths", (v,)))
    tasks.append(("task_extractor", (0,)))
    from . import c09

    f4, f4total = c09.fork4_tasks(budget_quick=160, budget_thorough=2500, seed_offset=19, limit_quick=5.0, limit_thorough=20.0)
    for t in f4:
        tasks.append(("task_ctx4", t))
    for r in C.run_named_tasks("harness.c19", tasks):
        chk.absorb_dict(r)
    nd = int(chk.extra.get("v4_context_forks_declined", 0))
    chk.extra["v4_context_fork_tasks"] = "%d of %d drawn, %d declined (memory)" % (len(f4), f4total, nd)
    if f4 and nd * 2 > len(f4):
        chk.inconclusive.append("v4 decimal contexts: %d of %d sampled forks exceeded the memory cap" % (nd, len(f4)))
    hs = chk.extra.get("hash_order_dependent_iterations", [])
    chk.input_model = ("M-ASSIGN with real scoring (v2 27, v3 48 sessions; v4 abstracted score - its scoring paths are executed in C02): constructor, every accessor, from_rh_vector under effect logging; "
                       "then the constructor re-executed under alternative ambient decimal contexts and the scores compared by the solver; parse step over the whole field alphabet from an arbitrary state (rejecting paths); the text extractor")
    chk.input_model += "; v4: the real constructor with REAL scoring inside a seeded sample of macrovector forks (%s), re-executed under alternative decimal contexts (quick: ROUND_DOWN, ROUND_UP; thorough: seven contexts)" % chk.extra["v4_context_fork_tasks"]
    chk.bounds = ["decimal contexts: the finite list in evidence (rounding modes x precisions >= 28); no perturbation lemma for arbitrary precision",
                  "thread interleavings and call histories are NOT explored: the claim is the frame condition (no path stores into module-level or ambient state, no path prints), from which schedule- and history-independence follow by a written non-interference argument",
                  "PYTHONHASHSEED: only through logged hash-order-dependent iterations: %r (the extractor's result order; the property treats it as a collection)" % (hs,)]
    chk.outside = ["concurrent construction from several threads (no model of threads)", "real histories (only the frame argument)"]
    chk.stubs = ["decimal.setcontext, warnings.*, random.seed, locale.setlocale, sys.setrecursionlimit: logged as ambient effects instead of executed"]
    chk.assumptions = ["a store into a real container counts as global iff the container is reachable from the cvss modules' globals at import time or is an ambient singleton (decimal context, sys.path, sys.modules, warnings.filters, os.environ)"]
    C.finish(chk)


if __name__ == "__main__":
    main()
