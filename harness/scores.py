"""
C01 / C03: the scores reported by CVSS3 / CVSS2 equal the specification, for every metric
assignment (input model M-ASSIGN, real constructor including parse_vector executed symbolically,
oracle /verif/spec/cvss{2,3}_spec.py executed by the same interpreter over the same variables,
SAT sweeping aligns the two, z3 decides every merge and every per-value equivalence).
"""

import itertools
import sys
import time
from fractions import Fraction

from . import common as C
from .common import ABSENT, G, U, Check, Session, SymDict, SymList, unsat_or_cex


def spec_key(v):
    if v is None:
        return None
    return Fraction(v)


def impl_key(v):
    """score as reported (a float, or None for v2); compared through its repr so that float noise
    such as 7.300000000000001 is *not* equal to 7.3"""
    if v is None:
        return None
    if isinstance(v, bool) or not isinstance(v, float):
        return ("not-a-float", repr(v))
    try:
        return Fraction(repr(v))
    except ValueError:
        return ("not-finite", repr(v))


def metrics_symdict(sess, version, vars_):
    """SymDict metric -> written value (None when absent) for the specification functions"""
    from pysymex import natives

    d = SymDict()
    g = G.GRAMMARS[version]
    for met, _ in g["metrics"]:
        if met not in vars_:
            natives.symdict_set(sess.it, d, met, None, sess.vc.CT)
            continue
        v = sess.vc.from_var(vars_[met], lambda lab: None if lab is ABSENT else lab)
        natives.symdict_set(sess.it, d, met, v, sess.vc.CT)
    return d


def construct(sess, chk, version, vars_, label):
    """run the real constructor on the M-ASSIGN vector; returns (obj, vector StructStr).  Any
    feasible exception is a counterexample candidate ("no exception for a valid vector")."""
    vec = sess.vector_from_vars(version, vars_)
    mod = sess.load("cvss")
    C.set_epoch(1)
    sess.begin(mod)
    cls = mod.globals["CVSS%d" % version]
    obj, raised = sess.call(cls, [vec])
    for cond, exc in raised:
        g = sess.vc.c_any(cond)
        model = unsat_or_cex(chk, sess, g, "%s: constructor raises %s" % (label, type(exc).__name__ if isinstance(exc, BaseException) else exc.cls.name))
        if model is not None:
            chk.counterexamples.append(
                {
                    "vc": "%s: no exception for a valid vector" % label,
                    "replay": {"kind": "constructs", "version": version, "vector": sess.vector_string(version, model)},
                }
            )
    return obj, vec


def compare_unions(sess, chk, label, impl_v, spec_v, ikey, skey, mk_replay):
    """per value: guard_impl(v) xor guard_spec(v) must be unsat"""
    m, vc = sess.m, sess.vc
    gi = {}
    for g, leaf in vc.alts(impl_v):
        gi.setdefault(ikey(leaf), []).append(g)
    gs = {}
    for g, leaf in vc.alts(spec_v):
        gs.setdefault(skey(leaf), []).append(g)
    keys = list(gi.keys()) + [k for k in gs if k not in gi]
    bad = 0
    for k in keys:
        a = m.or_all(gi.get(k, []))
        b = m.or_all(gs.get(k, []))
        a = m.sweep(a)
        b = m.sweep(b)
        name = "%s = %s" % (label, "None" if k is None else (str(float(k)) if isinstance(k, Fraction) else str(k)))
        if a is b:
            chk.add_vc(name, "unsat", 0.0, 0, trivial=True)
            continue
        x = m.XOR(a, b)
        model = unsat_or_cex(chk, sess, x, name)
        if model is not None:
            bad += 1
            if bad <= 2:
                chk.counterexamples.append({"vc": name, "replay": mk_replay(model)})
    return bad


@C.worker_guard
def task(version, fixed, label):
    chk = Check("scores")
    sess = Session()
    vars_ = sess.assign_vars(version, fixed=fixed)
    t0 = time.time()
    obj, vec = construct(sess, chk, version, vars_, label)
    sc, raised = sess.call_method(obj, "scores")
    for cond, exc in raised:
        model = unsat_or_cex(chk, sess, sess.vc.c_any(cond), "%s: scores() raises" % label)
        if model is not None:
            chk.counterexamples.append({"vc": "%s: scores() raises" % label, "replay": {"kind": "scores", "version": version, "vector": sess.vector_string(version, model)}})
    t_impl = time.time() - t0
    # oracle
    t0 = time.time()
    smod = sess.load("spec.cvss%d_spec" % version)
    d = metrics_symdict(sess, version, vars_)
    if version == 3:
        minor = sess.vc.from_var(vars_["minor"])
        sp, raised = sess.call(smod.globals["scores"], [d, minor])
    else:
        sp, raised = sess.call(smod.globals["scores"], [d])
    if raised:
        raise C.Unsupported("specification raised %r" % (raised[0][1],))
    t_spec = time.time() - t0
    if not isinstance(sc, SymList) and not isinstance(sc, tuple):
        raise C.Unsupported("scores() did not return a tuple: %r" % (sc,))
    impl_items = [e for _, e in sc.elems] if isinstance(sc, SymList) else list(sc)
    spec_items = [e for _, e in sp.elems] if isinstance(sp, SymList) else list(sp)
    names = ["base", "temporal", "environmental"]
    if len(impl_items) != 3:
        chk.harness_errors.append("scores() returned %d items" % len(impl_items))
        return chk.to_dict()

    def mk_replay(model):
        return {"kind": "scores", "version": version, "vector": sess.vector_string(version, model)}

    t0 = time.time()
    for nm, iv, sv in zip(names, impl_items, spec_items):
        compare_unions(sess, chk, "%s %s score" % (label, nm), iv, sv, impl_key, spec_key, mk_replay)
    t_cmp = time.time() - t0
    # vacuity / reachability witness: the assumptions (domain restriction) are satisfiable and the
    # comparison point is reached with a concrete vector
    w = sess.m.pattern_assignment(0)
    chk.witnesses.append({"task": label, "vector": sess.vector_string(version, w), "impl": [repr(sess.concretize(x, w)) for x in impl_items], "spec": [str(sess.concretize(x, w)) for x in spec_items]})
    # translator validation on simulation patterns: the symbolic result evaluated under a pattern
    # must equal what the real library computes for that vector
    conformance(sess, chk, version, impl_items, spec_items, 40 if C.tier() == "quick" else 400)
    chk.extra["timing"] = [{"task": label, "impl_s": round(t_impl, 2), "spec_s": round(t_spec, 2), "compare_s": round(t_cmp, 2), "guard_nodes": len(sess.m.nodes)}]
    chk.absorb(sess)
    return chk.to_dict()


def conformance(sess, chk, version, impl_items, spec_items, n):
    sys.path.insert(0, C.REPO)
    try:
        import importlib

        cvss = importlib.import_module("cvss")
    finally:
        sys.path.pop(0)
    cls = getattr(cvss, "CVSS%d" % version)
    n = min(n, sess.m.npat)
    for k in range(n):
        asg = sess.m.pattern_assignment(k)
        vs = sess.vector_string(version, asg)
        try:
            real = tuple(cls(vs).scores())
        except Exception as e:  # noqa: BLE001
            real = ("exception", type(e).__name__)
        sym = tuple(sess.concretize(x, asg) for x in impl_items)
        chk.conformance["patterns"] += 1
        if repr(real) != repr(sym):
            chk.conformance["mismatches"] += 1
            chk.harness_errors.append("translator validation: %s real=%r symbolic=%r" % (vs, real, sym))
            if chk.conformance["mismatches"] > 3:
                return


def split_tasks(version):
    """case split over a few small variables: complete by construction (product of the full
    domains), each case is an independent solver session"""
    g = G.GRAMMARS[version]
    if version == 3:
        splits = [("minor", ["0", "1"]), ("S", ["U", "C"]), ("MS", [ABSENT, "X", "U", "C"])]
        # MS absent/X go together (cheap), U and C apart
        groups = [
            [("minor", [mi]), ("S", [s]), ("MS", ms), ("AV", [av])]
            for mi in ["0", "1"]
            for s in ["U", "C"]
            for ms in ([ABSENT, "X"], ["U"], ["C"])
            for av in ["N", "A", "L", "P"]
        ]
    else:
        groups = [[("AV", [a]), ("AC", [b]), ("Au", [c])] for a in ["L", "A", "N"] for b in ["H", "M", "L"] for c in ["M", "S", "N"]]
    tasks = []
    for grp in groups:
        fixed = {k: v for k, v in grp}
        label = "v%d[%s]" % (version, ",".join("%s=%s" % (k, "|".join("-" if x is ABSENT else x for x in v)) for k, v in grp))
        tasks.append((version, fixed, label))
    return tasks


def main(pid, version):
    chk = Check(pid)
    tasks = split_tasks(version)
    results = C.run_tasks(task, tasks)
    for r in results:
        chk.absorb_dict(r)
    g = G.GRAMMARS[version]
    chk.input_model = (
        "M-ASSIGN: one finite-domain variable per metric (legal values; optional metrics also "
        "ABSENT, so absent and explicit Not Defined are distinct)%s; the real constructor "
        "(parse_vector, check_mandatory, ...) runs on the canonical-order structured vector string. "
        "Case split into %d independent sessions over small variables (complete: product of full domains)."
        % (", minor version" if version == 3 else "", len(tasks))
    )
    chk.bounds = ["none on the metric domain: every assignment of every metric (and minor version) is covered symbolically",
                  "field order is canonical in this model (order independence is property C05)"]
    chk.outside = ["strings outside the grammar (C04)", "non-canonical field order (C05)", "ambient decimal context other than the default (C19)"]
    chk.stubs = []
    chk.assumptions = [
        "pysymex interprets the Python subset faithfully (validated against the real library on simulation patterns in every run)",
        "Decimals that are numerically equal are merged into one union alternative (exponent differences ignored)",
        "oracle: /verif/spec/cvss%d_spec.py typed from the standard, exact rational arithmetic" % version,
        "z3 QF_FD (SAT) verdicts are trusted; thorough tier re-decides verdict queries with a second solver",
    ]
    C.finish(chk)


if __name__ == "__main__":
    main(sys.argv[1], int(sys.argv[2]))
