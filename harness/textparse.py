"""
C13: parse_cvss_from_text.
 (1) the whole function executed symbolically with re.findall replaced by K symbolic candidate
     strings (finite alphabet, real constructors, real set semantics through __eq__/__hash__):
     total, sound, duplicate-free;
 (2) the except clause covers every exception class the constructors can raise (C04's taxonomy):
     constructors replaced by summaries;
 (3) completeness lemmas in the solver's regular-expression theory: every string of a regular
     superset of the valid v2 / v3.x vectors fully matches the candidate pattern read from the
     current source.
"""

import ast
import re as _re
import sys
import time

import z3

from pysymex.interp import NativeHandler

from . import common as C
from . import objects as O
from .common import ABSENT, G, U, Check, Cond, Obj, Opaque, Session, StructStr, SymDict, SymList, unsat_or_cex

V2A = "AV:N/AC:L/Au:N/C:P/I:P/A:C"
V2A_RESPELT = "Au:N/AC:L/AV:N/C:P/I:P/A:C/E:ND"
V2B = "AV:L/AC:H/Au:M/C:N/I:N/A:N/E:F/RL:OF"
V30 = "CVSS:3.0/AV:N/AC:L/PR:N/UI:N/S:U/C:H/I:H/A:H"
V31 = "CVSS:3.1/AV:N/AC:L/PR:N/UI:N/S:U/C:H/I:H/A:H"
V31_RESPELT = "CVSS:3.1/S:U/AV:N/AC:L/PR:N/UI:N/C:H/I:H/A:H/E:X/MAV:X"
V31B = "CVSS:3.1/AV:P/AC:H/PR:H/UI:R/S:C/C:L/I:N/A:N/E:U/MS:U"
CANDIDATES = [
    V2A, V2A_RESPELT, V2B, V30, V31, V31_RESPELT, V31B,
    "CVSS:4.0/AV:N/AC:L/AT:N/PR:N/UI:N/VC:H/VI:H/VA:H/SC:N/SI:N/SA:N",
    "AV:N/AC:L/Au:N/C:P/I:P/A:Z/E:ND",
    "AV:N/AC:L/Au:N/C:P/I:P/A:C/A:C",
    "AV:N/AC:L/Au:N/C:P/I:P/E:F/RL:OF",
    "AV:N/AC:L/Au:N/C:P/I:P/A:C/",
    "thisisalongwordwithoutanycolonsorslashes",
    "AV:N/AC:L/Au:N/C:P/I:P/A:C/XX",
    "AV:N/AC:L/Au:N/C:P/I:P/A:C/::/",
    "CVSS:3.1/AV:N/AC:L/PR:N/UI:N/S:U/C:H/I:H/A:Q",
    "CVSS:3.1/AV:N/AC:L/PR:N/UI:N/S:U/C:H/I:H",
    "CVSS:3.7/AV:N/AC:L/PR:N/UI:N/S:U/C:H/I:H/A:H",
    "CVSS:3.1/AV:N/AC:L/PR:N/UI:N/S:U/C:H/I:H/A:H/A:H",
    "CVSS:3.1/AV:N/AC:L/PR:N/UI:N/S:Z/C:H/I:H/A:H",
    "CVSS:3.1/av:n/ac:l/pr:n/ui:n/s:u/c:h/i:h/a:h",
    "CVSS:3.1/AV:N/AC:L/PR:N/UI:N/S:U/C:H/I:H/A:H/",
    "CVSS:3.1/AV:N/AC:L/PR:N/UI:N/S:U/C:H/I:H/A:H/MPR:Q",
]


def oracle(c):
    """(class name, canonical key) the candidate must yield, or None"""
    from spec import grammar

    if grammar.is_valid(3, c):
        m_, minor = grammar.parse(3, c)
        return ("CVSS3", minor, tuple(sorted((k, v) for k, v in m_.items() if v != "X")))
    if grammar.is_valid(2, c):
        m_, _ = grammar.parse(2, c)
        return ("CVSS2", None, tuple(sorted((k, v) for k, v in m_.items() if v != "ND")))
    return None


def find_pattern(sess):
    """the regular expression literal in the current source of parse_cvss_from_text"""
    mod = sess.load("cvss.parser")
    fv = mod.globals["parse_cvss_from_text"]
    pats = []
    for node in ast.walk(fv.node):
        if isinstance(node, ast.Call) and isinstance(node.func, ast.Attribute) and node.func.attr in ("compile", "findall", "finditer", "search") and node.args:
            a = node.args[0]
            if isinstance(a, ast.Constant) and isinstance(a.value, str):
                pats.append(a.value)
    if not pats:
        # a pattern compiled / assembled at module level: the module body has been interpreted, so
        # the global is the real compiled pattern (or the real pattern string)
        import re as _re

        for node in ast.walk(fv.node):
            if isinstance(node, ast.Call) and isinstance(node.func, ast.Attribute) and node.func.attr in ("findall", "finditer", "search", "match"):
                recv = node.func.value
                cands = []
                if isinstance(recv, ast.Name):
                    cands.append(mod.globals.get(recv.id))
                if node.args and isinstance(node.args[0], ast.Name):
                    cands.append(mod.globals.get(node.args[0].id))
                for c in cands:
                    if isinstance(c, _re.Pattern):
                        pats.append(c.pattern)
                    elif isinstance(c, str):
                        pats.append(c)
    if len(pats) != 1:
        raise C.Unsupported("cannot identify the candidate pattern in parse_cvss_from_text (%d literals)" % len(pats))
    return mod, fv, pats[0]


def task_function(k):
    chk = Check("C13")
    sess = Session()
    m, vc = sess.m, sess.vc
    it = sess.it
    label = "K=%d candidates" % k
    mod, fv, pat = find_pattern(sess)
    cvssmod = sess.load("cvss")
    C.set_epoch(1)
    sess.begin(mod)
    for v in (2, 3, 4):
        O.abstract_scores(sess, cvssmod, v)
    sess._abs4 = True
    cvars = [m.new_var("cand%d" % i, list(range(len(CANDIDATES)))) for i in range(k)]
    cands = SymList([[vc.CT, vc.from_var(v, lambda i: CANDIDATES[i])] for v in cvars])

    def findall(it_, recv, args, kwargs, pc):
        return cands

    def finditer(it_, recv, args, kwargs, pc):
        raise C.Unsupported("finditer is not modelled")

    it.native_overrides[(_re.Pattern, "findall")] = findall
    it.native_overrides[(_re.Pattern, "finditer")] = finditer
    text = Opaque("text")

    def mk_replay(model, what):
        return {"kind": "c13", "candidates": [CANDIDATES[model["cand%d" % i]] for i in range(k)], "what": what}

    res, raised = sess.call(fv, [text])
    for cond, exc in raised:
        nm = type(exc).__name__ if isinstance(exc, BaseException) else exc.cls.name
        O.must_not(sess, chk, vc.c_any(cond), "%s: parse_cvss_from_text raises %s" % (label, nm), mk_replay)
    res = O.feasible_part(sess, res)
    if not isinstance(res, SymList):
        raise C.Unsupported("parse_cvss_from_text returned %r" % (res,))
    elems = [(p.l, e) for p, e in res.elems if m.find(p.l) is not m.FALSE]
    # soundness: every returned object is built from a candidate that is valid for its class
    keys = {}
    for p, e in elems:
        for g, leaf in vc.alts(e):
            pg = m.AND(p, g)
            if not isinstance(leaf, Obj):
                O.must_not(sess, chk, pg, "%s: a non-object %r is returned" % (label, leaf), mk_replay)
                continue
            vecv = leaf.attrs.get("vector")
            for gv, txt in vc.alts(vecv):
                o = oracle(txt) if isinstance(txt, str) else None
                if o is None or o[0] != leaf.cls.name:
                    O.must_not(sess, chk, m.AND(pg, gv), "%s: an object of class %s built from %r is returned" % (label, leaf.cls.name, txt), mk_replay)
                else:
                    keys.setdefault(o, []).append(m.AND(pg, gv))
    # completeness w.r.t. the candidates + duplicate freedom: for every canonical key, exactly one
    # returned object iff some candidate has that key
    allkeys = {}
    for i, c in enumerate(CANDIDATES):
        o = oracle(c)
        if o is not None:
            allkeys.setdefault(o, []).append(i)
    for o, idxs in allkeys.items():
        some = m.or_all([m.atom(v, i) for v in cvars for i in idxs])
        gs = keys.get(o, [])
        anyp = m.or_all(gs)
        O.must_not(sess, chk, m.XOR(some, anyp), "%s: an object for %s %s is returned exactly when a candidate spells it" % (label, o[0], CANDIDATES[idxs[0]]), mk_replay)
        for a in range(len(gs)):
            for b in range(a + 1, len(gs)):
                O.must_not(sess, chk, m.AND(gs[a], gs[b]), "%s: two equal objects (%s) are returned" % (label, CANDIDATES[idxs[0]]), mk_replay)
    if it.hash_order_iterations:
        chk.extra["hash_order_dependent_iterations"] = len(it.hash_order_iterations)
    chk.witnesses.append({"candidates": mk_replay(m.pattern_assignment(0), "")["candidates"]})
    chk.absorb(sess)
    return chk.to_dict()


def task_except(dummy):
    """constructors by summary: return an object or raise any error class of their version"""
    chk = Check("C13")
    sess = Session()
    m, vc = sess.m, sess.vc
    it = sess.it
    mod, fv, pat = find_pattern(sess)
    X = sess.load("cvss.exceptions")
    C.set_epoch(1)
    sess.begin(mod)
    names = {2: ["CVSS2MalformedError", "CVSS2MandatoryError"], 3: ["CVSS3MalformedError", "CVSS3MandatoryError"]}
    outcome = {v: m.new_var("outcome%d" % v, ["ok"] + names[v]) for v in (2, 3)}
    built = []

    def summary(v):
        def ctor(it_, args, kwargs, pc):
            for nm in names[v]:
                e = it_.instantiate(X.globals[nm], ["summary"], {}, pc)
                it_.raise_exc(vc.c_andg(pc, m.atom(outcome[v], nm)), e)
            o = Opaque("object-of-CVSS%d" % v, (args[0],))
            built.append((v, pc, args[0]))
            return o

        return NativeHandler(ctor, "CVSS%d[summary]" % v)

    mod.globals["CVSS2"] = summary(2)
    mod.globals["CVSS3"] = summary(3)
    heads = ["CVSS:3.1/rest", "CVSS:3.0/rest", "CVSS:3.x", "AV:N/rest", "CVSS:4.0/rest", "cvss:3.1/rest", "CVSS:2/rest"]
    cv = m.new_var("cand", list(range(len(heads))))
    cands = SymList([[vc.CT, vc.from_var(cv, lambda i: heads[i])]])
    it.native_overrides[(_re.Pattern, "findall")] = lambda it_, recv, args, kwargs, pc: cands

    def mk_replay(model, what):
        return {"kind": "c13_except", "what": what, "candidate_head": heads[model["cand"]], "outcomes": [model["outcome2"], model["outcome3"]]}

    res, raised = sess.call(fv, [Opaque("text")])
    for cond, exc in raised:
        nm = type(exc).__name__ if isinstance(exc, BaseException) else exc.cls.name
        O.must_not(sess, chk, vc.c_any(cond), "an error of the constructor (%s) escapes parse_cvss_from_text" % nm, mk_replay)
    # dispatch: CVSS3 exactly for candidates starting with 'CVSS:3.'
    for v, pc, arg in built:
        want = m.or_all([m.atom(cv, i) for i, h in enumerate(heads) if h.startswith("CVSS:3.") == (v == 3)])
        O.must_not(sess, chk, m.AND(vc.c_any(pc), m.NOT(want)), "CVSS%d constructor is used exactly for candidates %s 'CVSS:3.'" % (v, "starting with" if v == 3 else "not starting with"), mk_replay)
    chk.absorb(sess)
    return chk.to_dict()


# -- regular-language lemmas (z3 sequence / regex theory) -----------------------------------------


def to_z3(pattern):
    """z3 regular expression for the subset of `re` syntax the candidate pattern uses"""
    p = pattern
    pos = [0]

    def peek():
        return p[pos[0]] if pos[0] < len(p) else None

    def eat():
        c = p[pos[0]]
        pos[0] += 1
        return c

    def chars(cs):
        cs = sorted(cs)
        rs = []
        i = 0
        while i < len(cs):
            j = i
            while j + 1 < len(cs) and ord(cs[j + 1]) == ord(cs[j]) + 1:
                j += 1
            rs.append(z3.Range(cs[i], cs[j]) if j > i else z3.Re(cs[i]))
            i = j + 1
        return rs[0] if len(rs) == 1 else z3.Union(*rs)

    def alt():
        xs = [seq()]
        while peek() == "|":
            eat()
            xs.append(seq())
        return xs[0] if len(xs) == 1 else z3.Union(*xs)

    def seq():
        xs = []
        while peek() is not None and peek() not in "|)":
            xs.append(rep())
        if not xs:
            return z3.Re("")
        return xs[0] if len(xs) == 1 else z3.Concat(*xs)

    def rep():
        a = atom()
        while peek() is not None and peek() in "?*+{":
            op = eat()
            if op == "?":
                a = z3.Option(a)
            elif op == "*":
                a = z3.Star(a)
            elif op == "+":
                a = z3.Plus(a)
            else:
                j = p.index("}", pos[0])
                spec = p[pos[0]:j]
                pos[0] = j + 1
                if "," in spec:
                    lo, hi = spec.split(",")
                    lo = int(lo)
                    if hi.strip():
                        a = z3.Loop(a, lo, int(hi))
                    else:
                        a = z3.Concat(z3.Loop(a, lo, lo), z3.Star(a)) if lo > 0 else z3.Star(a)
                else:
                    a = z3.Loop(a, int(spec), int(spec))
        return a

    def atom():
        c = eat()
        if c == "(":
            if p[pos[0]:pos[0] + 2] == "?:":
                pos[0] += 2
            elif peek() == "?":
                raise C.Unsupported("regex group flags")
            a = alt()
            if eat() != ")":
                raise C.Unsupported("unbalanced regex")
            return a
        if c == "[":
            neg = False
            if peek() == "^":
                raise C.Unsupported("negated class")
            cs = set()
            first = True
            while True:
                d = eat()
                if d == "]" and not first:
                    break
                first = False
                if d == "\\":
                    d = eat()
                if peek() == "-" and p[pos[0] + 1] != "]":
                    eat()
                    hi = eat()
                    for k in range(ord(d), ord(hi) + 1):
                        cs.add(chr(k))
                else:
                    cs.add(d)
            return chars(cs)
        if c == ".":
            return z3.AllChar(z3.ReSort(z3.StringSort()))
        if c == "\\":
            d = eat()
            if d == "d":
                return z3.Range("0", "9")
            if d in "wsDWSbB":
                raise C.Unsupported("regex escape \\%s" % d)
            return z3.Re(d)
        if c in "^$":
            raise C.Unsupported("regex anchors inside the candidate pattern")
        return z3.Re(c)

    r = alt()
    if pos[0] != len(p):
        raise C.Unsupported("regex not fully parsed")
    return r


def superset_language(version, minor=None):
    """regular superset of the valid vectors: prefix + '/'-separated legal fields among which
    every mandatory metric occurs (the no-duplicate constraint is dropped: it only shrinks the
    language)"""
    g = G.GRAMMARS[version]
    lits = {met: z3.Union(*[z3.Re(met + ":" + v) for v in vals]) if len(vals) > 1 else z3.Re(met + ":" + vals[0]) for met, vals in g["metrics"]}
    fields = z3.Union(*[lits[met] for met, _ in g["metrics"]])
    slash = z3.Re("/")
    body = z3.Concat(fields, z3.Star(z3.Concat(slash, fields)))
    parts = [body]
    for met in g["mandatory"]:
        parts.append(z3.Concat(z3.Star(z3.Concat(fields, slash)), lits[met], z3.Star(z3.Concat(slash, fields))))
    lang = parts[0]
    for p_ in parts[1:]:
        lang = z3.Intersect(lang, p_)
    if version == 2:
        return lang
    return z3.Concat(z3.Re("CVSS:3.%s/" % minor), lang)


def task_regex(version):
    """every valid vector (M-ASSIGN, canonical order or one adjacent transposition) fully matches
    the candidate pattern read from the current source: the pattern's NFA is run symbolically over
    the structured vector string and the solver decides acceptance for all assignments"""
    from . import jsonprops
    from . import symjson as SJ

    chk = Check("C13")
    sess = Session()
    m, vc = sess.m, sess.vc
    mod, fv, pat = find_pattern(sess)
    vars_ = sess.assign_vars(version)
    vec = jsonprops.swapped_vector(sess, version, vars_)

    def mk_replay(model, what):
        v = sess.concretize(vec, model)
        return {"kind": "c13_text", "text": "see " + v + " here.", "vector": v, "version": version, "what": what}

    acc = SJ.regex_accepts(sess, "^(?:" + pat + ")$", vec)
    O.must_not(sess, chk, m.NOT(acc), "every valid v%d vector (any assignment; canonical order or one adjacent transposition) fully matches the candidate pattern %r" % (version, pat), mk_replay)
    chk.extra["candidate_pattern"] = pat
    chk.witnesses.append({"vector": sess.concretize(vec, m.pattern_assignment(0))})
    chk.absorb(sess)
    return chk.to_dict()


def main():
    chk = Check("C13")
    ks = [2, 3, 4] if C.tier() == "quick" else [2, 3, 4, 5, 6, 8]
    tasks = [("task_function", (k,)) for k in ks] + [("task_except", (0,)), ("task_regex", (2,)), ("task_regex", (3,))]
    for r in C.run_named_tasks("harness.textparse", tasks):
        chk.absorb_dict(r)
    chk.input_model = ("(1) whole function with findall replaced by K symbolic candidates (K up to %d) over %d strings (valid v2/v3.0/v3.1 vectors in several spellings, a v4 vector, invalid shapes), real constructors and real __eq__/__hash__ for the set; "
                       "(2) constructors by summary raising every error class of their version; (3) the candidate pattern (read from the current source) compiled to an NFA and run symbolically over every valid vector (M-ASSIGN, canonical order or one adjacent transposition)" % (max(ks), len(CANDIDATES)))
    chk.bounds = ["(1) candidate alphabet finite, at most %d candidates per text" % max(ks), "(3) field order: canonical or one adjacent transposition (the pinned pattern only counts characters of a class, so it is order-insensitive)"]
    chk.outside = ["re's own scanning (leftmost, greedy, non-overlapping findall) is trusted: with it, a valid vector delimited by characters outside [A-Za-z:/] is a maximal run and hence a candidate (written argument)", "texts that are not str"]
    chk.stubs = ["re.Pattern.findall: returns the symbolic candidates", "compute_*_score: arbitrary"]
    chk.assumptions = ["set membership uses __hash__ and __eq__ (modelled: an element is inserted unless an element with equal hash and == is present)", "constructor error taxonomy: C04"]
    C.finish(chk)


if __name__ == "__main__":
    main()
