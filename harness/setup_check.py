"""MANIFEST.setup_cmd: verify tool versions and pinned oracle files; nothing is built."""
import hashlib, os, sys
ROOT = os.path.dirname(os.path.dirname(os.path.abspath(__file__)))
import z3
print("z3", z3.get_version_string())
PINNED = {"spec/cvss4_lookup.py": "f12af47d69339c3f0c06f11cee5e8ca8e461963bce6cdc469c4ff0d901374d31"}
ok = True
for rel, h in PINNED.items():
    got = hashlib.sha256(open(os.path.join(ROOT, rel), "rb").read()).hexdigest()
    if got != h:
        print("PINNED FILE CHANGED:", rel, got)
        ok = False
if not os.path.isdir("/repo/cvss"):
    print("missing /repo/cvss"); ok = False
sys.exit(0 if ok else 1)
