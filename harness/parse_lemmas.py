"""
Parser lemmas on the *real* parse_vector code, executed from an arbitrary loop state:

 L4  one field slot (every legal literal + a systematic near-miss alphabet, exact CPython string
     semantics at the leaves) processed by the real loop body from an arbitrary metric map:
     same outcome and successor state as the grammar step.                      (C04)
 L2  the code around the loop: what it rejects before the loop and which fields the loop
     iterates over, for an arbitrary number of abstract chunks; check_mandatory from an arbitrary
     state.                                                                      (C04)
 COMM two slots in both orders from an arbitrary state give the same outcome and state.   (C05)

The composition over any number of fields is a written induction (DESIGN.md section 6, C04/C05).
"""

import ast
import sys

from pysymex.interp import Frame, Loop, Obj

from . import common as C
from . import objects as O
from .common import ABSENT, G, U, Check, Cond, Opaque, Session, StructStr, SymDict, SymList, unsat_or_cex

ERR = {2: "CVSS2", 3: "CVSS3", 4: "CVSS4"}


def legal_literals(version):
    g = G.GRAMMARS[version]
    return [met + ":" + v for met, vals in g["metrics"] for v in vals]


def near_misses(version, extended=False):
    """systematic near-miss alphabet for one field"""
    g = G.GRAMMARS[version]
    out = ["", ":", "::", "AV", "AV:", ":N", "AV:N:N", "AV::N", "XX:N", "AV:Q", "av:n", "Av:N", "AV=N", "AV;N", "AV :N", "AV: N", "1:2", "CVSS:3.1", "CVSS:4.0", "CVSS:3.0", "CVSS", "AV:N AV:N", "AV:N,AC:L"]
    lits = legal_literals(version)
    for lit in lits:
        met, val = lit.split(":")
        out.append(lit.lower() if lit.lower() != lit else lit.swapcase())
        out.append(lit.upper() if lit.upper() != lit else lit.title())
        out.append(" " + lit)
        out.append(lit + " ")
        out.append(lit + "\n")
        out.append("\t" + lit)
        out.append(lit + ":")
        out.append(met + ":" + val + val)
        out.append(met + met + ":" + val)
        if extended:
            out.append(lit + "\r")
            out.append(lit + "\x00")
            out.append(met + "：" + val)  # fullwidth colon
            out.append(met.replace("A", "А") + ":" + val)  # cyrillic look-alike
    # values of other metrics, other versions' literals
    allvals = sorted({v for _, vals in g["metrics"] for v in vals})
    for met, vals in g["metrics"]:
        for v in allvals:
            if v not in vals:
                out.append(met + ":" + v)
    for other in (2, 3, 4):
        if other != version:
            for lit in legal_literals(other):
                out.append(lit)
    out.append("AV:N ")
    out.append(" AV:N")
    out.append("ＡＶ:N")
    legal = set(lits)
    res = []
    seen = set()
    for s in out:
        if s in legal or s in seen or "/" in s:
            continue
        seen.add(s)
        res.append(s)
    return res


def locate(sess, version):
    """the parse_vector function of the class, its top-level for loop and what precedes it"""
    mod = sess.load("cvss")
    cls = mod.globals["CVSS%d" % version]
    fv, _ = cls.lookup("parse_vector")
    if fv is None or not hasattr(fv, "node"):
        raise C.Unsupported("no parse_vector method")
    body = fv.node.body
    idx = None
    for i, st in enumerate(body):
        if isinstance(st, ast.For):
            idx = i
            break
    if idx is None:
        raise C.Unsupported("parse_vector has no top-level for loop")
    return mod, cls, fv, body[:idx], body[idx], body[idx + 1:]


def fresh_object(sess, cls, vector):
    """object as __init__ leaves it right before it calls parse_vector()"""
    init, _ = cls.lookup("__init__")
    obj = Obj(cls)
    fr = Frame(sess.it, init.module, None, init)
    fr.locals["self"] = obj
    fr.locals[init.node.args.args[1].arg] = vector
    sess.it.frames.append(fr)
    try:
        for st in init.node.body:
            if isinstance(st, ast.Expr) and isinstance(st.value, ast.Call) and isinstance(st.value.func, ast.Attribute) and st.value.func.attr == "parse_vector":
                break
            sess.it.exec_block([st], fr, sess.vc.CT)
        else:
            raise C.Unsupported("__init__ does not call parse_vector()")
    finally:
        sess.it.frames.pop()
    return obj


def arbitrary_state(sess, version, tag):
    """metric map in an arbitrary state: per metric ABSENT or any legal value"""
    from pysymex import natives

    g = G.GRAMMARS[version]
    d = SymDict()
    vars_ = {}
    for met, vals in g["metrics"]:
        v = sess.m.new_var("%s.%s" % (tag, met), [ABSENT] + list(vals))
        vars_[met] = v
        pres = Cond(sess.m.NOT(sess.m.atom(v, ABSENT)))
        val = sess.vc.from_var(v, lambda lab: "?" if lab is ABSENT else lab)
        d.keys.append(met)
        d.pres[met] = pres
        d.vals[met] = val
    return d, vars_


def copy_state(d):
    from pysymex.natives import symdict_copy

    return symdict_copy(d)


def run_body(sess, fv, for_node, obj, field_value, extra_locals=None):
    """execute the loop body once with the loop variable bound to field_value; returns the list
    of (Cond, exception) raised and the Cond under which `break` left the loop"""
    it, vc = sess.it, sess.vc
    fr = Frame(it, fv.module, None, fv)
    fr.locals["self"] = obj
    if extra_locals:
        fr.locals.update(extra_locals)
    it.frames.append(fr)
    lp = Loop(vc.CF)
    fr.loops.append(lp)
    try:
        it.assign(for_node.target, field_value, fr, vc.CT)
        it.exec_block(for_node.body, fr, vc.CT)
    finally:
        it.frames.pop()
    return list(fr.scopes[0]), lp.brk, fr.ret_c


def exc_name(e):
    return type(e).__name__ if isinstance(e, BaseException) else e.cls.name


def is_malformed(e, version):
    return isinstance(e, Obj) and e.cls.name == "%sMalformedError" % ERR[version]


def slot_union(sess, name, alphabet):
    var = sess.m.new_var(name, list(range(len(alphabet))))
    val = sess.vc.from_var(var, lambda i: alphabet[i])
    return var, val


def oracle_step(sess, version, state_vars, slot_var, alphabet):
    """guards of the grammar step: ok (field is a legal literal of a metric not yet present) and
    per metric/value the condition 'this slot sets metric := value'"""
    m = sess.m
    g = G.GRAMMARS[version]
    table = dict(g["metrics"])
    ok = []
    sets = {}
    for i, s in enumerate(alphabet):
        parts = s.split(":")
        if len(parts) == 2 and parts[0] in table and parts[1] in table[parts[0]]:
            met, val = parts
            c = m.AND(m.atom(slot_var, i), m.atom(state_vars[met], ABSENT))
            ok.append(c)
            sets.setdefault((met, val), []).append(c)
    return m.or_all(ok), {k: m.or_all(v) for k, v in sets.items()}


def compare_state(sess, chk, label, d, state_vars, sets, ok, mk_replay):
    """under ok: metric map == old state plus the one new entry"""
    m, vc = sess.m, sess.vc
    g = None
    for met, var in state_vars.items():
        newly = m.or_all([c for (mm, val), c in sets.items() if mm == met])
        want_pres = m.OR(m.NOT(m.atom(var, ABSENT)), newly)
        if met not in d.pres:
            O.must_not(sess, chk, m.AND(ok, want_pres), "%s: metric %s present in the map" % (label, met), mk_replay)
            continue
        O.must_not(sess, chk, m.AND(ok, m.XOR(d.pres[met].l, want_pres)), "%s: presence of %s after the step" % (label, met), mk_replay)
        for lab in var.domain:
            if lab is ABSENT:
                continue
            want = m.OR(m.atom(var, lab), sets.get((met, lab), m.FALSE))
            got = vc.guard_eq(d.vals[met], lab)
            O.must_not(sess, chk, m.AND(m.AND(ok, d.pres[met].l), m.XOR(got, want)), "%s: %s == %s after the step" % (label, met, lab), mk_replay)
    for k in d.keys:
        if k not in state_vars:
            O.must_not(sess, chk, m.AND(ok, d.pres[k].l), "%s: foreign key %r in the metric map" % (label, k), mk_replay)


def task_L4(version):
    chk = Check("C04")
    sess = Session()
    m, vc = sess.m, sess.vc
    label = "v%d L4" % version
    mod, cls, fv, pre, for_node, post = locate(sess, version)
    C.set_epoch(1)
    alphabet = legal_literals(version) + near_misses(version, extended=(C.tier() == "thorough"))
    state, svars = arbitrary_state(sess, version, "st")
    slot_var, slot = slot_union(sess, "slot", alphabet)
    vec_token = StructStr("/", [(m.TRUE, "<vector>")])
    obj = fresh_object(sess, cls, vec_token)
    obj.attrs["metrics"] = state

    def state_vector(model):
        parts = []
        for met, _ in G.GRAMMARS[version]["metrics"]:
            lab = model["st." + met]
            if lab is not ABSENT:
                parts.append(met + ":" + lab)
        return parts

    def mk_replay(model, what):
        return {"kind": "parse_step", "version": version, "state_fields": state_vector(model), "field": alphabet[model["slot"]], "what": what}

    raised, brk, ret = run_body(sess, fv, for_node, obj, slot)
    ok, sets = oracle_step(sess, version, svars, slot_var, alphabet)
    rc = vc.CF
    for cond, e in raised:
        rc = vc.c_or(rc, cond)
        if not is_malformed(e, version):
            O.must_not(sess, chk, vc.c_any(cond), "%s: loop body raises %s (not the version's malformed-vector error)" % (label, exc_name(e)), mk_replay)
    O.must_not(sess, chk, m.XOR(rc.l, m.NOT(ok)), "%s: field rejected exactly when it is not a legal literal of a metric not seen yet" % label, mk_replay)
    for c, what in ((brk, "break"), (ret, "return")):
        if c is not vc.CF:
            O.must_not(sess, chk, c.l, "%s: loop body leaves the loop by %s" % (label, what), mk_replay)
    d = obj.attrs["metrics"]
    if not isinstance(d, SymDict):
        raise C.Unsupported("self.metrics is not a dict after the step")
    compare_state(sess, chk, label, d, svars, sets, ok, mk_replay)
    chk.extra["alphabet_v%d" % version] = {"legal": len(legal_literals(version)), "near_miss": len(alphabet) - len(legal_literals(version)), "sample": alphabet[-12:]}
    chk.witnesses.append({"lemma": label, "field": alphabet[sess.m.pattern_assignment(0)["slot"]]})
    chk.absorb(sess)
    return chk.to_dict()


# near-miss prefixes: the legal heads, every string one edit (deletion, replacement, insertion over
# EDIT_ALPHABET) away from a legal head, and a hand-written list of other plausible confusions
EDIT_ALPHABET = list("0123456789") + [".", ",", ":", " ", "\n", "\t", "C", "c", "V", "v", "S", "s", "X", "-", "\u0661", "\uff10", "\u00b9"]
_HAND = {
    3: ["CVSS:3.2", "CVSS:3", "CVSS:3.", "cvss:3.1", "CVSS:3.10", " CVSS:3.1", "CVSS:3.1 ", "", "CVSS:2.0", "CVSS:4.0", "CVSS:3,1", "CVSS:3.1\n", "AV:N", "CVSS:31", "XCVSS:3.1", "CVSS:3.000001", "CVSS:3.1.0", "CVSS:03.1"],
    4: ["CVSS:4.1", "CVSS:4", "CVSS:4.", "cvss:4.0", "CVSS:4.00", " CVSS:4.0", "CVSS:4.0 ", "", "CVSS:3.1", "CVSS:3.0", "CVSS:4,0", "CVSS:4.0\n", "AV:N", "CVSS:40", "XCVSS:4.0", "CVSS:4.000000", "CVSS:4.0.0", "CVSS:04.0"],
}


def one_edit(word):
    out = set()
    for i in range(len(word)):
        out.add(word[:i] + word[i + 1:])
        for ch in EDIT_ALPHABET:
            out.add(word[:i] + ch + word[i + 1:])
    for i in range(len(word) + 1):
        for ch in EDIT_ALPHABET:
            out.add(word[:i] + ch + word[i:])
    return out


def _heads(version, legal):
    seen = list(legal)
    for w in legal:
        for x in sorted(one_edit(w)):
            if x not in seen:
                seen.append(x)
    for x in _HAND[version]:
        if x not in seen:
            seen.append(x)
    return seen


HEADS = {2: [], 3: _heads(3, ["CVSS:3.0", "CVSS:3.1"]), 4: _heads(4, ["CVSS:4.0"])}
LEGAL_HEADS = {3: {"CVSS:3.0": 0, "CVSS:3.1": 1}, 4: {"CVSS:4.0": None}}


def task_L2(version):
    """code before the loop, for head x K abstract chunks (each empty or non-empty)"""
    chk = Check("C04")
    sess = Session()
    m, vc = sess.m, sess.vc
    label = "v%d L2" % version
    mod, cls, fv, pre, for_node, post = locate(sess, version)
    C.set_epoch(1)
    K = 4
    # number of chunks after the head: 0..K; each chunk is "" or an abstract non-empty token
    nvar = m.new_var("nchunks", list(range(K + 1)))
    chunks = []
    if version != 2:
        hvar, head = slot_union(sess, "head", HEADS[version])
        chunks.append((m.TRUE, head))
    tok = []
    for i in range(K):
        pres = m.or_all([m.atom(nvar, n) for n in range(i + 1, K + 1)])
        ev = m.new_var("empty%d" % i, [0, 1])
        val = vc.from_var(ev, lambda e, i=i: "" if e else "<f%d>" % i)
        tok.append((pres, val, ev))
        chunks.append((pres, val))
    vec = StructStr("/", chunks)
    obj = fresh_object(sess, cls, vec)

    def concrete(model):
        parts = []
        if version != 2:
            parts.append(HEADS[version][model["head"]])
        for i in range(model["nchunks"]):
            parts.append("" if model["empty%d" % i] else "AV:N")
        return "/".join(parts)

    def mk_replay(model, what):
        return {"kind": "parse_pre", "version": version, "vector": concrete(model), "what": what}

    it = sess.it
    fr = Frame(it, fv.module, None, fv)
    fr.locals["self"] = obj
    it.frames.append(fr)
    try:
        it.exec_block(pre, fr, vc.CT)
        raised = list(fr.scopes[0])
        live = it.live(fr, vc.CT)
        iterable = it.ev(for_node.iter, fr, live)
    finally:
        it.frames.pop()
    rc = vc.CF
    for cond, e in raised:
        rc = vc.c_or(rc, cond)
        if not is_malformed(e, version):
            O.must_not(sess, chk, vc.c_any(cond), "%s: code before the loop raises %s" % (label, exc_name(e)), mk_replay)
    # oracle: the string is certainly invalid when it is empty, has a wrong head, has no field,
    # or contains an empty field
    n0 = m.atom(nvar, 0)
    if version == 2:
        head_ok = m.TRUE
        no_field = n0
    else:
        head_ok = m.or_all([m.atom(hvar, i) for i, h in enumerate(HEADS[version]) if h in LEGAL_HEADS[version]])
        no_field = n0
    some_empty = m.or_all([m.AND(p, m.atom(ev, 1)) for p, _, ev in tok])
    invalid = m.OR(m.OR(m.NOT(head_ok), no_field), some_empty)
    O.must_not(sess, chk, m.AND(rc.l, m.NOT(invalid)), "%s: code before the loop rejects only invalid strings" % label, mk_replay)
    O.must_not(sess, chk, m.AND(m.NOT(rc.l), m.NOT(head_ok)), "%s: a wrong prefix never reaches the field loop" % label, mk_replay)
    if version != 2:
        O.must_not(sess, chk, m.AND(m.NOT(rc.l), no_field), "%s: a bare prefix never reaches the field loop" % label, mk_replay)
    # the loop iterates over exactly the field chunks
    if not isinstance(iterable, SymList):
        raise C.Unsupported("loop iterable is %r" % (iterable,))
    notr = m.NOT(rc.l)
    elems = [e for e in iterable.elems]
    # expected: chunk i present <=> i < nchunks (v2 with nchunks == 0: the empty string, rejected)
    exp = [(p, v) for p, v, _ in tok]
    # align position-wise: the iterable must have the same presence guards and values
    if len(elems) < len(exp):
        O.must_not(sess, chk, m.AND(notr, exp[len(elems)][0]), "%s: the loop sees every field" % label, mk_replay)
    j = 0
    for p, v in elems:
        pl = m.AND(p.l, notr)
        if j < len(exp):
            ep, evv = exp[j]
            if m.is_sat(m.AND(pl, m.NOT(ep)), "branch") is False and True:
                O.must_not(sess, chk, m.AND(notr, m.XOR(p.l, ep)), "%s: loop element %d present exactly when field %d exists" % (label, j, j), mk_replay)
                O.must_not(sess, chk, m.AND(pl, m.NOT(O.eq_cond(sess, v, evv).l)), "%s: loop element %d is field %d" % (label, j, j), mk_replay)
                j += 1
                continue
        # an element that is not one of the fields must never be there
        O.must_not(sess, chk, pl, "%s: the loop sees only the fields (extra element)" % label, mk_replay)
    if j < len(exp):
        O.must_not(sess, chk, m.AND(notr, exp[j][0]), "%s: field %d is iterated" % (label, j), mk_replay)
    # v3: minor version follows the prefix
    if version == 3:
        mv = obj.attrs.get("minor_version")
        for i, h in enumerate(HEADS[3]):
            if h in LEGAL_HEADS[3]:
                want = LEGAL_HEADS[3][h]
                O.must_not(sess, chk, m.AND(m.AND(notr, m.atom(hvar, i)), m.NOT(vc.guard_eq(mv, want))), "%s: prefix %s sets minor version %d" % (label, h, want), mk_replay)
    chk.extra["bounds_L2"] = "heads: %d alternatives; up to %d chunks after the head, each empty or an abstract non-empty token" % (len(HEADS[version]), K)
    chk.absorb(sess)
    return chk.to_dict()


def task_mandatory(version):
    """check_mandatory from an arbitrary state raises the mandatory-metric error exactly when a
    mandatory metric is absent; the code after the loop in parse_vector raises nothing"""
    chk = Check("C04")
    sess = Session()
    m, vc = sess.m, sess.vc
    label = "v%d mandatory" % version
    mod, cls, fv, pre, for_node, post = locate(sess, version)
    C.set_epoch(1)
    state, svars = arbitrary_state(sess, version, "st")
    obj = fresh_object(sess, cls, StructStr("/", [(m.TRUE, "<vector>")]))
    obj.attrs["metrics"] = state
    sess.begin(mod)

    def mk_replay(model, what):
        parts = [met + ":" + model["st." + met] for met, _ in G.GRAMMARS[version]["metrics"] if model["st." + met] is not ABSENT]
        return {"kind": "mandatory", "version": version, "fields": parts, "what": what}

    if post:
        fr = Frame(sess.it, fv.module, None, fv)
        fr.locals["self"] = obj
        sess.it.frames.append(fr)
        try:
            sess.it.exec_block(post, fr, vc.CT)
        finally:
            sess.it.frames.pop()
        for cond, e in fr.scopes[0]:
            O.must_not(sess, chk, vc.c_any(cond), "%s: code after the loop raises %s" % (label, exc_name(e)), mk_replay)
    v, raised = sess.call_method(obj, "check_mandatory")
    rc = vc.CF
    for cond, e in raised:
        rc = vc.c_or(rc, cond)
        if not (isinstance(e, Obj) and e.cls.name == "%sMandatoryError" % ERR[version]):
            O.must_not(sess, chk, vc.c_any(cond), "%s: check_mandatory raises %s" % (label, exc_name(e)), mk_replay)
    missing = m.or_all([m.atom(svars[met], ABSENT) for met in G.GRAMMARS[version]["mandatory"]])
    O.must_not(sess, chk, m.XOR(rc.l, missing), "%s: mandatory-metric error exactly when a mandatory metric is absent" % label, mk_replay)
    chk.absorb(sess)
    return chk.to_dict()


def task_comm(version):
    """two fields in both orders from an arbitrary state"""
    chk = Check("C05")
    sess = Session()
    m, vc = sess.m, sess.vc
    label = "v%d commutation" % version
    mod, cls, fv, pre, for_node, post = locate(sess, version)
    C.set_epoch(1)
    alphabet = legal_literals(version) + near_misses(version)[: (60 if C.tier() == "quick" else 400)]
    state, svars = arbitrary_state(sess, version, "st")
    va, a = slot_union(sess, "slotA", alphabet)
    vb, b = slot_union(sess, "slotB", alphabet)
    vec_token = StructStr("/", [(m.TRUE, "<vector>")])
    o1 = fresh_object(sess, cls, vec_token)
    o1.attrs["metrics"] = copy_state(state)
    o2 = fresh_object(sess, cls, vec_token)
    o2.attrs["metrics"] = copy_state(state)

    def mk_replay(model, what):
        parts = [met + ":" + model["st." + met] for met, _ in G.GRAMMARS[version]["metrics"] if model["st." + met] is not ABSENT]
        return {"kind": "parse_comm", "version": version, "state_fields": parts, "a": alphabet[model["slotA"]], "b": alphabet[model["slotB"]], "what": what}

    def two(obj, x, y):
        it = sess.it
        fr = Frame(it, fv.module, None, fv)
        fr.locals["self"] = obj
        it.frames.append(fr)
        lp = Loop(vc.CF)
        fr.loops.append(lp)
        try:
            for val in (x, y):
                if lp.cont is not vc.CF:
                    lp.cont = vc.CF
                    it._recompute_dead(fr)
                pc = it.live(fr, vc.CT)
                it.assign(for_node.target, val, fr, pc)
                it.exec_block(for_node.body, fr, pc)
        finally:
            it.frames.pop()
        rc = vc.CF
        for cond, e in fr.scopes[0]:
            rc = vc.c_or(rc, cond)
        return rc, list(fr.scopes[0])

    r1, ex1 = two(o1, a, b)
    r2, ex2 = two(o2, b, a)
    O.must_not(sess, chk, m.XOR(r1.l, r2.l), "%s: rejected in one order exactly when rejected in the other" % label, mk_replay)
    for cond, e in ex1 + ex2:
        if not is_malformed(e, version):
            O.must_not(sess, chk, vc.c_any(cond), "%s: raises %s" % (label, exc_name(e)), mk_replay)
    ok = m.AND(m.NOT(r1.l), m.NOT(r2.l))
    d1, d2 = o1.attrs["metrics"], o2.attrs["metrics"]
    for k in list(d1.keys) + [k for k in d2.keys if k not in d1.pres]:
        p1 = d1.pres.get(k, vc.CF).l
        p2 = d2.pres.get(k, vc.CF).l
        O.must_not(sess, chk, m.AND(ok, m.XOR(p1, p2)), "%s: presence of %s independent of field order" % (label, k), mk_replay)
        if k in d1.pres and k in d2.pres:
            e = O.eq_cond(sess, d1.vals[k], d2.vals[k])
            O.must_not(sess, chk, m.AND(m.AND(ok, m.AND(p1, p2)), m.NOT(e.l)), "%s: value of %s independent of field order" % (label, k), mk_replay)
    # every other attribute of the object that the loop body may have stored must agree as well
    # (a parser that tracks anything besides the metric map while reading fields would make the
    # result order-dependent without touching the map)
    nattr = 0
    sess.begin(mod)
    for nm in sorted((set(o1.attrs) | set(o2.attrs)) - {"metrics"}):
        v1, v2 = o1.attrs.get(nm, C.UNBOUND), o2.attrs.get(nm, C.UNBOUND)
        if v1 is v2:
            continue
        nattr += 1
        same = same_value_guard(sess, v1, v2)
        O.must_not(sess, chk, m.AND(ok, m.NOT(same)), "%s: attribute %r after the two fields independent of their order" % (label, nm), mk_replay)
    chk.extra["comm_attributes_compared_v%d" % version] = nattr
    chk.extra["comm_alphabet_v%d" % version] = len(alphabet)
    chk.absorb(sess)
    return chk.to_dict()


def same_value_guard(sess, v1, v2):
    """guard: both values unset, or both set and equal (concrete leaves compared by type and
    value; anything else through the interpreter's ==)"""
    m, vc = sess.m, sess.vc
    outs = []
    for g1, l1 in vc.alts(v1):
        for g2, l2 in vc.alts(v2):
            g = m.AND(g1, g2)
            if g is m.FALSE:
                continue
            if l1 is C.UNBOUND or l2 is C.UNBOUND:
                if l1 is l2:
                    outs.append(g)
                continue
            if C.is_special(l1) or C.is_special(l2):
                e = O.eq_cond(sess, l1, l2)
                outs.append(m.AND(g, e.l))
                continue
            try:
                if type(l1) is type(l2) and l1 == l2:
                    outs.append(g)
            except Exception:  # noqa: BLE001
                pass
    return m.or_all(outs) if outs else m.FALSE
