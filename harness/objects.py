"""
Helpers shared by the object-level properties (C05-C12, C15, C18): constructing the real object
in the M-ASSIGN model, the v4 score abstraction, generic comparison of symbolic values.
"""

from decimal import Decimal
from fractions import Fraction

from pysymex import structstr as SS
from pysymex.interp import NativeHandler

from . import common as C
from .common import ABSENT, G, U, Check, Cond, Pair, Session, StructStr, SymDict, SymList, unsat_or_cex

SCORES101 = [k / 10.0 for k in range(0, 101)]


def abstract_v4_score(sess, mod, name="score4"):
    """replace CVSS4.compute_base_score by 'base_score := an arbitrary one-decimal float in
    [0.0, 10.0]' (a fresh solver variable per constructed object).  Sound over-approximation for
    properties that do not concern the relation between metrics and score (C02 / C14)."""
    cls = mod.globals["CVSS4"]
    counter = [0]

    def stub(it, args, kwargs, pc):
        sess._absn4 = getattr(sess, "_absn4", 0)
        nm = name if sess._absn4 == 0 else "%s#%d" % (name, sess._absn4)
        sess._absn4 += 1
        var = sess.m.new_var(nm, SCORES101)
        it.set_attr(args[0], "base_score", sess.vc.from_var(var), pc)
        return None

    cls.ns["compute_base_score"] = NativeHandler(stub, "compute_base_score[abstracted]")


def abstract_scores(sess, mod, version):
    """all versions: the three (one) score computations are replaced by fresh arbitrary scores.
    Used only where the property does not concern score values (equality / hashing lemmas)."""
    if version == 4:
        abstract_v4_score(sess, mod)
        return
    cls = mod.globals["CVSS%d" % version]
    counter = [0]
    decs = [Decimal(k) / Decimal(10) for k in range(0, 101)]

    def mk(attr, allow_none):
        def stub(it, args, kwargs, pc):
            sess._absn = getattr(sess, "_absn", 0) + 1
            var = sess.m.new_var("v%d.%s#%d" % (version, attr, sess._absn), decs + ([None] if allow_none else []))
            it.set_attr(args[0], attr, sess.vc.from_var(var), pc)
            return None

        return stub

    cls.ns["compute_base_score"] = NativeHandler(mk("base_score", False), "compute_base_score[abstracted]")
    cls.ns["compute_temporal_score"] = NativeHandler(mk("temporal_score", version == 2), "compute_temporal_score[abstracted]")
    cls.ns["compute_environmental_score"] = NativeHandler(mk("environmental_score", version == 2), "compute_environmental_score[abstracted]")


def make_object(sess, chk, version, vars_, label, vec=None, abstract4=True, prefix=""):
    """run the real constructor; exceptions on a valid vector are counterexample candidates"""
    if vec is None:
        vec = sess.vector_from_vars(version, vars_)
    mod = sess.load("cvss")
    C.set_epoch(1)
    if sess.top is None:
        sess.begin(mod)
    if version == 4 and abstract4 and not getattr(sess, "_abs4", False):
        abstract_v4_score(sess, mod)
        sess._abs4 = True
    cls = mod.globals["CVSS%d" % version]
    obj, raised = sess.call(cls, [vec])
    for cond, exc in raised:
        nm = type(exc).__name__ if isinstance(exc, BaseException) else exc.cls.name
        model = unsat_or_cex(chk, sess, sess.vc.c_any(cond), "%s: constructor raises %s on a valid vector" % (label, nm))
        if model is not None:
            chk.counterexamples.append({"vc": "%s: constructor raises %s" % (label, nm), "replay": {"kind": "constructs", "version": version, "vector": sess.vector_string(version, model, prefix)}})
    return obj, vec, mod


def call_ok(sess, chk, recv, name, args=(), kwargs=None, label="", mk_replay=None):
    """call an accessor; any feasible exception is a counterexample candidate.  Returns value."""
    v, raised = sess.call_method(recv, name, args, kwargs)
    for cond, exc in raised:
        nm = type(exc).__name__ if isinstance(exc, BaseException) else exc.cls.name
        model = unsat_or_cex(chk, sess, sess.vc.c_any(cond), "%s: %s() raises %s" % (label, name, nm))
        if model is not None and mk_replay is not None:
            chk.counterexamples.append({"vc": "%s: %s() raises %s" % (label, name, nm), "replay": mk_replay(model, "%s raises %s" % (name, nm))})
    return feasible_part(sess, v)


def feasible_part(sess, v):
    """drop alternatives whose guard the solver proves infeasible (e.g. 'no value' alternatives
    left behind by speculative evaluation of a path that cannot happen)"""
    if type(v) is not U:
        return v
    keep = []
    for g, leaf in v.alts:
        if leaf is C.UNBOUND or len(v.alts) <= 3:
            if sess.m.is_sat(g, "feasible") is False:
                continue
        keep.append((g, leaf))
    return sess.vc.mk_union(keep, sweep=False)


def items_of(v):
    if isinstance(v, SymList):
        return [e for _, e in v.elems]
    if isinstance(v, (tuple, list)):
        return list(v)
    raise C.Unsupported("expected a tuple, got %r" % (v,))


def eq_cond(sess, a, b):
    """Cond: a == b (structural for strings / tuples / unions)"""
    import ast

    it = sess.it
    fr = sess.top
    r = it.compare(ast.Eq, a, b, fr, sess.vc.CT)
    return it.truth(r, fr, sess.vc.CT)


def must_hold(sess, chk, cond, name, mk_replay, detail=None):
    """verdict: cond (Cond or guard) holds for every assignment"""
    m = sess.m
    g = cond.l if isinstance(cond, Cond) else cond
    bad = m.NOT(g)
    model = unsat_or_cex(chk, sess, bad, name)
    if model is not None:
        if len(chk.counterexamples) < 4:
            chk.counterexamples.append({"vc": name, "replay": mk_replay(model, name)})
        return False
    return True


def must_not(sess, chk, guard, name, mk_replay):
    model = unsat_or_cex(chk, sess, guard, name)
    if model is not None:
        if len(chk.counterexamples) < 4 or any(k in name for k in ("valid for the schema", "allOf", "pattern")):
            chk.counterexamples.append({"vc": name, "replay": mk_replay(model, name)})
        return False
    return True


def score_wellformed_problem(v, allow_none):
    """None if v is a well-formed reported score, else a description"""
    if v is None:
        return None if allow_none else "None reported where a number is required"
    if isinstance(v, bool) or not isinstance(v, float):
        return "not a float: %r" % (v,)
    if v != v or v in (float("inf"), float("-inf")):
        return "not finite: %r" % (v,)
    if not (0.0 <= v <= 10.0):
        return "out of range: %r" % (v,)
    if repr(v) == "-0.0":
        return "negative zero"
    d = Decimal(repr(v))
    if d.as_tuple().exponent != -1:
        return "not exactly one decimal digit: %r" % (v,)
    return None


def severity_of(version, score):
    """official qualitative scale (v3/v4: FIRST; v2: NVD)"""
    if version == 2:
        if score is None:
            return "None"
        if score <= 3.9:
            return "Low"
        if score <= 6.9:
            return "Medium"
        return "High"
    if score == 0.0:
        return "None"
    if score <= 3.9:
        return "Low"
    if score <= 6.9:
        return "Medium"
    if score <= 8.9:
        return "High"
    return "Critical"
