"""concrete replays (real library, CPython) for the object-level properties"""
import random
from decimal import Decimal


def _cls(version):
    import cvss

    return getattr(cvss, "CVSS%d" % version)


def wellformed(v, allow_none):
    if v is None:
        return None if allow_none else "None where a number is required"
    if isinstance(v, bool) or not isinstance(v, float):
        return "not a float: %r" % (v,)
    if v != v or v in (float("inf"), float("-inf")):
        return "not finite"
    if not (0.0 <= v <= 10.0):
        return "out of range %r" % (v,)
    if repr(v) == "-0.0":
        return "negative zero"
    if Decimal(repr(v)).as_tuple().exponent != -1:
        return "not one decimal digit: %r" % (v,)
    return None


def severity_of(version, score):
    if version == 2:
        if score is None:
            return "None"
        return "Low" if score <= 3.9 else ("Medium" if score <= 6.9 else "High")
    if score == 0.0:
        return "None"
    return "Low" if score <= 3.9 else ("Medium" if score <= 6.9 else ("High" if score <= 8.9 else "Critical"))


def find_v4_vector_with_score(x, limit=300000):
    from spec import grammar as G
    import cvss

    rng = random.Random(12345)
    g = G.V4
    for _ in range(limit):
        parts = ["CVSS:4.0"]
        for met, vals in g["metrics"]:
            if met in g["mandatory"] or rng.random() < 0.4:
                parts.append(met + ":" + rng.choice(vals))
        v = "/".join(parts)
        if cvss.CVSS4(v).base_score == x:
            return v
    return None


def c09_problems(version, vec):
    cls = _cls(version)
    o = cls(vec)
    probs = []
    sc = o.scores()
    sv = o.severities()
    n = 3 if version in (2, 3) else 1
    if len(sc) != n or len(sv) != n:
        return ["scores()/severities() have %d/%d items" % (len(sc), len(sv))]
    for i in range(n):
        p = wellformed(sc[i], version == 2 and i > 0)
        if p:
            probs.append("score[%d] %s" % (i, p))
            continue
        want = severity_of(version, sc[i])
        if sv[i] != want:
            probs.append("score[%d]=%r rated %r, official scale says %r" % (i, sc[i], sv[i], want))
    if version == 4 and o.severity != sv[0]:
        probs.append("severity attribute %r != severities()[0] %r" % (o.severity, sv[0]))
    if version in (3, 4):
        keys = ["baseSeverity", "temporalSeverity", "environmentalSeverity"][:n]
        for sort in (False, True):
            for minimal in (False, True):
                js = o.as_json(sort=sort, minimal=minimal)
                for i, k in enumerate(keys):
                    if k in js and (not isinstance(js[k], str) or js[k].upper() != str(sv[i]).upper()):
                        probs.append("as_json(sort=%s,minimal=%s)[%s]=%r vs severities() %r" % (sort, minimal, k, js[k], sv[i]))
    return probs


def r_c09(p):
    version = p["version"]
    vec = p["vector"]
    if version == 4 and "abstract_score" in p:
        v2 = find_v4_vector_with_score(p["abstract_score"])
        if v2 is None:
            return {"violates": None, "error": "no v4 vector with score %r found for replay" % p["abstract_score"]}
        vec = v2
    try:
        probs = c09_problems(version, vec)
    except Exception as e:  # noqa: BLE001
        return {"violates": True, "vector": vec, "what": "accessor raised %s: %s" % (type(e).__name__, e)}
    return {"violates": bool(probs), "vector": vec, "problems": probs[:5]}


def r_macrovector4(p):
    import cvss
    from spec import cvss4_spec, grammar

    vec = p["vector"]
    o = cvss.CVSS4(vec)
    m, _ = grammar.parse(4, vec)
    full = {k: m.get(k) for k in grammar.metric_names(grammar.V4)}
    want = cvss4_spec.mv_string(cvss4_spec.macrovector(cvss4_spec.effective(full)))
    got = o.macroVector()
    return {"violates": got != want, "vector": vec, "library": got, "specification": want}


def _defined(version, vec):
    from spec import grammar

    m, minor = grammar.parse(version, vec)
    nd = "ND" if version == 2 else "X"
    return {k: v for k, v in m.items() if v != nd}, minor


def c07_single_problems(version, vec):
    from spec import grammar

    cls = _cls(version)
    o = cls(vec)
    probs = []
    defined, minor = _defined(version, vec)
    g = grammar.GRAMMARS[version]
    # the library's own fixed order: cleaned vector of a vector that defines everything
    full = []
    for met, vals in g["metrics"]:
        full.append(met + ":" + [v for v in vals if v not in ("X", "ND")][0])
    head = {2: "", 3: "CVSS:3.%s/" % minor, 4: "CVSS:4.0/"}[version]
    order_src = cls(head + "/".join(full))
    order = [f.split(":")[0] for f in (order_src.clean_vector().split("/")[(0 if version == 2 else 1):])]
    variants = [((), {})] if version == 2 else [((), {}), ((), {"output_prefix": True}), ((), {"output_prefix": False})]
    for a, kw in variants:
        c = o.clean_vector(*a, **kw)
        with_prefix = version != 2 and kw.get("output_prefix", True)
        body = c
        if with_prefix:
            if not c.startswith(head):
                probs.append("prefix wrong in %r" % c)
                continue
            body = c[len(head):]
        fields = body.split("/") if body else []
        got = {}
        for f in fields:
            kv = f.split(":")
            if len(kv) != 2 or kv[0] in got:
                probs.append("bad/duplicate field %r in %r" % (f, c))
                continue
            got[kv[0]] = kv[1]
        if got != defined:
            probs.append("cleaned vector %r does not list exactly the defined metrics %r" % (c, defined))
        pos = [order.index(k) for k in got if k in order]
        if pos != sorted(pos):
            probs.append("cleaned vector %r not in the library's fixed order" % c)
    c = o.clean_vector()
    try:
        o2 = cls(c)
    except Exception as e:  # noqa: BLE001
        probs.append("re-parsing %r raises %s" % (c, type(e).__name__))
        return probs
    if o2.clean_vector() != c:
        probs.append("cleaned vector changes on re-parse: %r -> %r" % (c, o2.clean_vector()))
    if not (o == o2) or not (o2 == o):
        probs.append("x != reparse(x)")
    if repr(o.scores()) != repr(o2.scores()):
        probs.append("scores change on re-parse: %r -> %r" % (o.scores(), o2.scores()))
    if hash(o) != hash(o2):
        probs.append("hash changes on re-parse")
    return probs


def r_c07_single(p):
    try:
        probs = c07_single_problems(p["version"], p["vector"])
    except Exception as e:  # noqa: BLE001
        return {"violates": True, "vector": p["vector"], "what": "raised %s: %s" % (type(e).__name__, e)}
    return {"violates": bool(probs), "vector": p["vector"], "problems": probs[:5]}


def r_c07_pair(p):
    version = p["version"]
    cls = _cls(version)
    a, b = cls(p["a"]), cls(p["b"])
    da, ma = _defined(version, p["a"])
    db, mb = _defined(version, p["b"])
    want = (da == db and ma == mb)
    probs = []
    try:
        if (a == b) != want:
            probs.append("a == b is %r, expected %r" % (a == b, want))
        if (a == b) != (b == a):
            probs.append("== not symmetric")
        if (a != b) == (a == b):
            probs.append("!= inconsistent with ==")
        if a == b and hash(a) != hash(b):
            probs.append("equal objects with different hashes")
        if a == b and a.clean_vector() != b.clean_vector():
            probs.append("equal objects with different cleaned vectors")
        if not (a == a):
            probs.append("a != a")
    except Exception as e:  # noqa: BLE001
        probs.append("raised %s: %s" % (type(e).__name__, e))
    return {"violates": bool(probs), "a": p["a"], "b": p["b"], "problems": probs}


def r_c07_foreign(p):
    import cvss

    version = p["version"]
    a = _cls(version)(p["a"])
    others = {"None": None, "0": 0, "''": "", "a tuple": ("AV", "N"), "1.5": 1.5, "the cleaned vector string itself": a.clean_vector(), "a list": [1],
              "a CVSS2 object": cvss.CVSS2("AV:N/AC:L/Au:N/C:P/I:P/A:P"), "a CVSS3 object": cvss.CVSS3("CVSS:3.1/AV:N/AC:L/PR:N/UI:N/S:U/C:H/I:H/A:H"),
              "a CVSS4 object": cvss.CVSS4("CVSS:4.0/AV:N/AC:L/AT:N/PR:N/UI:N/VC:H/VI:H/VA:H/SC:N/SI:N/SA:N")}
    o = others[p["other"]]
    try:
        r = (a == o)
    except Exception as e:  # noqa: BLE001
        return {"violates": True, "what": "== raised %s" % type(e).__name__}
    return {"violates": bool(r), "a": p["a"], "other": p["other"], "result": repr(r)}


def r_relational(p):
    version = p["version"]
    cls = _cls(version)
    try:
        a, b = cls(p["a"]), cls(p["b"])
    except Exception as e:  # noqa: BLE001
        return {"violates": True, "what": "constructor raised %s: %s" % (type(e).__name__, e), "a": p["a"], "b": p["b"]}
    sa, sb = a.scores(), b.scores()
    probs = []
    mode = p["compare"]
    if mode == "all":
        if repr(sa) != repr(sb):
            probs.append("scores %r vs %r" % (sa, sb))
        for acc in ["severities", "clean_vector", "rh_vector"] + (["temporal_vector", "environmental_vector"] if version in (2, 3) else []):
            x, y = getattr(a, acc)(), getattr(b, acc)()
            if x != y:
                probs.append("%s %r vs %r" % (acc, x, y))
        if not (a == b):
            probs.append("objects differ")
        if hash(a) != hash(b):
            probs.append("hashes differ")
    elif mode == "defined":
        for i, (x, y) in enumerate(zip(sa, sb)):
            if x is not None and repr(x) != repr(y):
                probs.append("score[%d] %r vs %r" % (i, x, y))
    else:
        i = {"base": 0, "temporal": 1, "environmental": 2}[mode]
        if repr(sa[i]) != repr(sb[i]):
            probs.append("%s score %r vs %r" % (mode, sa[i], sb[i]))
    return {"violates": bool(probs), "a": p["a"], "b": p["b"], "scores_a": repr(sa), "scores_b": repr(sb), "problems": probs[:4]}


HANDLERS = {"relational": r_relational, "c09": r_c09, "macrovector4": r_macrovector4, "c07_single": r_c07_single, "c07_pair": r_c07_pair, "c07_foreign": r_c07_foreign}
