"""concrete replays (real library, CPython) for the object-level properties"""
import random
from decimal import Decimal


def _cls(version):
    import cvss

    return getattr(cvss, "CVSS%d" % version)


def wellformed(v, allow_none):
    if v is None:
        return None if allow_none else "None where a number is required"
    if isinstance(v, bool) or not isinstance(v, float):
        return "not a float: %r" % (v,)
    if v != v or v in (float("inf"), float("-inf")):
        return "not finite"
    if not (0.0 <= v <= 10.0):
        return "out of range %r" % (v,)
    if repr(v) == "-0.0":
        return "negative zero"
    if Decimal(repr(v)).as_tuple().exponent != -1:
        return "not one decimal digit: %r" % (v,)
    return None


def severity_of(version, score):
    if version == 2:
        if score is None:
            return "None"
        return "Low" if score <= 3.9 else ("Medium" if score <= 6.9 else "High")
    if score == 0.0:
        return "None"
    return "Low" if score <= 3.9 else ("Medium" if score <= 6.9 else ("High" if score <= 8.9 else "Critical"))


def find_v4_vector_with_score(x, limit=300000):
    from spec import grammar as G
    import cvss

    rng = random.Random(12345)
    g = G.V4
    for _ in range(limit):
        parts = ["CVSS:4.0"]
        for met, vals in g["metrics"]:
            if met in g["mandatory"] or rng.random() < 0.4:
                parts.append(met + ":" + rng.choice(vals))
        v = "/".join(parts)
        if cvss.CVSS4(v).base_score == x:
            return v
    return None


def c09_problems(version, vec):
    cls = _cls(version)
    o = cls(vec)
    probs = []
    sc = o.scores()
    sv = o.severities()
    n = 3 if version in (2, 3) else 1
    if len(sc) != n or len(sv) != n:
        return ["scores()/severities() have %d/%d items" % (len(sc), len(sv))]
    for i in range(n):
        p = wellformed(sc[i], version == 2 and i > 0)
        if p:
            probs.append("score[%d] %s" % (i, p))
            continue
        want = severity_of(version, sc[i])
        if sv[i] != want:
            probs.append("score[%d]=%r rated %r, official scale says %r" % (i, sc[i], sv[i], want))
    if version == 4 and o.severity != sv[0]:
        probs.append("severity attribute %r != severities()[0] %r" % (o.severity, sv[0]))
    if version in (3, 4):
        keys = ["baseSeverity", "temporalSeverity", "environmentalSeverity"][:n]
        for sort in (False, True):
            for minimal in (False, True):
                js = o.as_json(sort=sort, minimal=minimal)
                for i, k in enumerate(keys):
                    if k in js and (not isinstance(js[k], str) or js[k].upper() != str(sv[i]).upper()):
                        probs.append("as_json(sort=%s,minimal=%s)[%s]=%r vs severities() %r" % (sort, minimal, k, js[k], sv[i]))
    return probs


def r_c09(p):
    version = p["version"]
    vec = p["vector"]
    if version == 4 and "abstract_score" in p:
        v2 = find_v4_vector_with_score(p["abstract_score"])
        if v2 is None:
            return {"violates": None, "error": "no v4 vector with score %r found for replay" % p["abstract_score"]}
        vec = v2
    try:
        probs = c09_problems(version, vec)
    except Exception as e:  # noqa: BLE001
        return {"violates": True, "vector": vec, "what": "accessor raised %s: %s" % (type(e).__name__, e)}
    return {"violates": bool(probs), "vector": vec, "problems": probs[:5]}


def r_macrovector4(p):
    import cvss
    from spec import cvss4_spec, grammar

    vec = p["vector"]
    o = cvss.CVSS4(vec)
    m, _ = grammar.parse(4, vec)
    full = {k: m.get(k) for k in grammar.metric_names(grammar.V4)}
    want = cvss4_spec.mv_string(cvss4_spec.macrovector(cvss4_spec.effective(full)))
    got = o.macroVector()
    return {"violates": got != want, "vector": vec, "library": got, "specification": want}


def _defined(version, vec):
    from spec import grammar

    m, minor = grammar.parse(version, vec)
    nd = "ND" if version == 2 else "X"
    return {k: v for k, v in m.items() if v != nd}, minor


def c07_single_problems(version, vec):
    from spec import grammar

    cls = _cls(version)
    o = cls(vec)
    probs = []
    defined, minor = _defined(version, vec)
    g = grammar.GRAMMARS[version]
    # the library's own fixed order: cleaned vector of a vector that defines everything
    full = []
    for met, vals in g["metrics"]:
        full.append(met + ":" + [v for v in vals if v not in ("X", "ND")][0])
    head = {2: "", 3: "CVSS:3.%s/" % minor, 4: "CVSS:4.0/"}[version]
    order_src = cls(head + "/".join(full))
    order = [f.split(":")[0] for f in (order_src.clean_vector().split("/")[(0 if version == 2 else 1):])]
    variants = [((), {})] if version == 2 else [((), {}), ((), {"output_prefix": True}), ((), {"output_prefix": False})]
    for a, kw in variants:
        c = o.clean_vector(*a, **kw)
        with_prefix = version != 2 and kw.get("output_prefix", True)
        body = c
        if with_prefix:
            if not c.startswith(head):
                probs.append("prefix wrong in %r" % c)
                continue
            body = c[len(head):]
        fields = body.split("/") if body else []
        got = {}
        for f in fields:
            kv = f.split(":")
            if len(kv) != 2 or kv[0] in got:
                probs.append("bad/duplicate field %r in %r" % (f, c))
                continue
            got[kv[0]] = kv[1]
        if got != defined:
            probs.append("cleaned vector %r does not list exactly the defined metrics %r" % (c, defined))
        pos = [order.index(k) for k in got if k in order]
        if pos != sorted(pos):
            probs.append("cleaned vector %r not in the library's fixed order" % c)
    c = o.clean_vector()
    try:
        o2 = cls(c)
    except Exception as e:  # noqa: BLE001
        probs.append("re-parsing %r raises %s" % (c, type(e).__name__))
        return probs
    if o2.clean_vector() != c:
        probs.append("cleaned vector changes on re-parse: %r -> %r" % (c, o2.clean_vector()))
    if not (o == o2) or not (o2 == o):
        probs.append("x != reparse(x)")
    if repr(o.scores()) != repr(o2.scores()):
        probs.append("scores change on re-parse: %r -> %r" % (o.scores(), o2.scores()))
    if hash(o) != hash(o2):
        probs.append("hash changes on re-parse")
    return probs


def r_c07_single(p):
    try:
        probs = c07_single_problems(p["version"], p["vector"])
    except Exception as e:  # noqa: BLE001
        return {"violates": True, "vector": p["vector"], "what": "raised %s: %s" % (type(e).__name__, e)}
    return {"violates": bool(probs), "vector": p["vector"], "problems": probs[:5]}


def r_c07_pair(p):
    version = p["version"]
    cls = _cls(version)
    a, b = cls(p["a"]), cls(p["b"])
    da, ma = _defined(version, p["a"])
    db, mb = _defined(version, p["b"])
    want = (da == db and ma == mb)
    probs = []
    try:
        if (a == b) != want:
            probs.append("a == b is %r, expected %r" % (a == b, want))
        if (a == b) != (b == a):
            probs.append("== not symmetric")
        if (a != b) == (a == b):
            probs.append("!= inconsistent with ==")
        if a == b and hash(a) != hash(b):
            probs.append("equal objects with different hashes")
        if a == b and a.clean_vector() != b.clean_vector():
            probs.append("equal objects with different cleaned vectors")
        if not (a == a):
            probs.append("a != a")
    except Exception as e:  # noqa: BLE001
        probs.append("raised %s: %s" % (type(e).__name__, e))
    return {"violates": bool(probs), "a": p["a"], "b": p["b"], "problems": probs}


def r_c07_foreign(p):
    import cvss

    version = p["version"]
    a = _cls(version)(p["a"])
    others = {"None": None, "0": 0, "''": "", "a tuple": ("AV", "N"), "1.5": 1.5, "the cleaned vector string itself": a.clean_vector(), "a list": [1],
              "a CVSS2 object": cvss.CVSS2("AV:N/AC:L/Au:N/C:P/I:P/A:P"), "a CVSS3 object": cvss.CVSS3("CVSS:3.1/AV:N/AC:L/PR:N/UI:N/S:U/C:H/I:H/A:H"),
              "a CVSS4 object": cvss.CVSS4("CVSS:4.0/AV:N/AC:L/AT:N/PR:N/UI:N/VC:H/VI:H/VA:H/SC:N/SI:N/SA:N")}
    o = others[p["other"]]
    try:
        r = (a == o)
    except Exception as e:  # noqa: BLE001
        return {"violates": True, "what": "== raised %s" % type(e).__name__}
    return {"violates": bool(r), "a": p["a"], "other": p["other"], "result": repr(r)}


def r_relational(p):
    version = p["version"]
    cls = _cls(version)
    try:
        a, b = cls(p["a"]), cls(p["b"])
    except Exception as e:  # noqa: BLE001
        return {"violates": True, "what": "constructor raised %s: %s" % (type(e).__name__, e), "a": p["a"], "b": p["b"]}
    sa, sb = a.scores(), b.scores()
    probs = []
    mode = p["compare"]
    if mode == "all":
        if repr(sa) != repr(sb):
            probs.append("scores %r vs %r" % (sa, sb))
        for acc in ["severities", "clean_vector", "rh_vector"] + (["temporal_vector", "environmental_vector"] if version in (2, 3) else []):
            x, y = getattr(a, acc)(), getattr(b, acc)()
            if x != y:
                probs.append("%s %r vs %r" % (acc, x, y))
        if not (a == b):
            probs.append("objects differ")
        if hash(a) != hash(b):
            probs.append("hashes differ")
    elif mode == "defined":
        for i, (x, y) in enumerate(zip(sa, sb)):
            if x is not None and repr(x) != repr(y):
                probs.append("score[%d] %r vs %r" % (i, x, y))
    else:
        i = {"base": 0, "temporal": 1, "environmental": 2}[mode]
        if repr(sa[i]) != repr(sb[i]):
            probs.append("%s score %r vs %r" % (mode, sa[i], sb[i]))
    return {"violates": bool(probs), "a": p["a"], "b": p["b"], "scores_a": repr(sa), "scores_b": repr(sb), "problems": probs[:4]}


def classify(version, s):
    """grammar oracle for a string: 'ok', 'malformed' (syntactic fault) or 'mandatory'"""
    from spec import grammar

    g = grammar.GRAMMARS[version]
    if grammar.is_valid(version, s):
        return "ok"
    parts = s.split("/")
    if version != 2:
        if parts[0] not in g["prefixes"] or len(parts) < 2:
            return "malformed"
        parts = parts[1:]
    table = dict(g["metrics"])
    seen = set()
    for f in parts:
        kv = f.split(":")
        if len(kv) != 2 or kv[0] not in table or kv[1] not in table[kv[0]] or kv[0] in seen:
            return "malformed"
        seen.add(kv[0])
    return "mandatory"


def observe(version, s):
    import cvss
    from cvss import exceptions as X

    cls = _cls(version)
    n = "CVSS%d" % version
    try:
        o = cls(s)
    except getattr(X, n + "MalformedError"):
        return "malformed", None
    except getattr(X, n + "MandatoryError"):
        return "mandatory", None
    except Exception as e:  # noqa: BLE001
        return "foreign:%s" % type(e).__name__, None
    return "ok", o


def complete(version, fields, head=None):
    """prepend the version prefix and append the mandatory metrics that are missing"""
    from spec import grammar

    g = grammar.GRAMMARS[version]
    have = {f.split(":")[0] for f in fields if ":" in f}
    extra = [m + ":" + grammar.legal(g, m)[0] for m in g["mandatory"] if m not in have]
    body = list(fields) + extra
    if head is None:
        head = {2: None, 3: "CVSS:3.1", 4: "CVSS:4.0"}[version]
    return "/".join(([head] if head is not None else []) + body)


def probe(version, strings):
    probs = []
    for s in strings:
        want = classify(version, s)
        got, o = observe(version, s)
        if got != want:
            probs.append("%r: library %s, grammar %s" % (s, got, want))
        elif got == "ok":
            from spec import grammar

            m, minor = grammar.parse(version, s)
            nd = "ND" if version == 2 else "X"
            defined = {k: v for k, v in m.items() if v != nd}
            body = o.clean_vector()
            if version != 2:
                body = body.split("/", 1)[1] if "/" in body else ""
            got_fields = dict(f.split(":") for f in body.split("/") if f)
            if got_fields != defined:
                probs.append("%r accepted but cleaned vector %r does not list its defined metrics" % (s, o.clean_vector()))
    return probs


def r_parse_step(p):
    from spec import grammar

    version = p["version"]
    g = grammar.GRAMMARS[version]
    st, f = p["state_fields"], p["field"]
    strings = [complete(version, st + [f])]
    met = f.split(":")[0] if ":" in f else None
    if met in dict(g["metrics"]):
        for v in grammar.legal(g, met):
            strings.append(complete(version, st + [f, met + ":" + v]))
            strings.append(complete(version, [met + ":" + v] + st + [f]))
    strings.append(complete(version, [f] + st))
    probs = probe(version, strings)
    return {"violates": bool(probs), "probes": len(strings), "problems": probs[:5]}


def r_parse_pre(p):
    """the lemma abstracts the chunks after the head to "empty / non-empty": the counterexample
    is replayed as given and with the body completed to an otherwise valid vector (a wrong head
    let through to the field loop shows as an accepted vector only then)"""
    version = p["version"]
    cands = [p["vector"]]
    if version != 2:
        chunks = p["vector"].split("/")
        head, rest = chunks[0], chunks[1:]
        if rest and all(rest):
            cands.append(complete(version, [], head=head))
        elif not rest:
            cands.append(head)
    probs = probe(version, cands)
    return {"violates": bool(probs), "vector": p["vector"], "tried": cands, "problems": probs}


def r_mandatory(p):
    version = p["version"]
    head = {2: None, 3: "CVSS:3.1", 4: "CVSS:4.0"}[version]
    s = "/".join(([head] if head else []) + p["fields"])
    probs = probe(version, [s])
    return {"violates": bool(probs), "vector": s, "problems": probs}


def r_parse_comm(p):
    version = p["version"]
    st, a, b = p["state_fields"], p["a"], p["b"]
    s1 = complete(version, st + [a, b])
    s2 = complete(version, st + [b, a])
    probs = probe(version, [s1, s2])
    g1, o1 = observe(version, s1)
    g2, o2 = observe(version, s2)
    if g1 != g2:
        probs.append("order matters: %r -> %s, %r -> %s" % (s1, g1, s2, g2))
    elif g1 == "ok" and (repr(o1.scores()) != repr(o2.scores()) or o1.clean_vector() != o2.clean_vector() or not (o1 == o2)):
        probs.append("order changes outputs: %r vs %r" % (s1, s2))
    return {"violates": bool(probs), "a": s1, "b": s2, "problems": probs[:4]}


def r_c15(p):
    from spec import grammar

    version = p["version"]
    vec = p["vector"]
    cls = _cls(version)
    o = cls(vec)
    g = grammar.GRAMMARS[version]
    m, minor = grammar.parse(version, vec)
    nd = "ND" if version == 2 else "X"
    probs = []

    def want(met):
        v = m.get(met)
        if v is None or v == nd:
            if version == 3 and met.startswith("M"):
                return m[met[1:]]
            return nd
        return v

    for acc, group in (("temporal_vector", g["temporal"]), ("environmental_vector", g["environmental"])):
        got = getattr(o, acc)()
        exp = "/".join(k + ":" + want(k) for k in group)
        if got != exp:
            probs.append("%s() = %r, expected %r" % (acc, got, exp))
    head = "" if version == 2 else vec.split("/")[0] + "/"
    re = head + "/".join(k + ":" + m[k] for k in g["mandatory"]) + "/" + o.temporal_vector() + "/" + o.environmental_vector()
    try:
        o2 = cls(re)
        if repr(o2.scores()) != repr(o.scores()):
            probs.append("scores of re-assembled %r are %r, original %r" % (re, o2.scores(), o.scores()))
    except Exception as e:  # noqa: BLE001
        probs.append("re-assembled vector %r raises %s" % (re, type(e).__name__))
    return {"violates": bool(probs), "vector": vec, "problems": probs[:4]}


def _vector_with_base(version, vec, want):
    """a valid vector of the version whose real base score is `want` (replay-side search over the
    base metrics, keeping the witness' optional fields); None if no base assignment has it"""
    import itertools

    from spec import grammar as G

    g = G.GRAMMARS[version]
    cls = _cls(version)
    mand = set(g["mandatory"])
    fields = vec.split("/")
    head = [f for f in fields if ":" in f and f.split(":")[0] == "CVSS"]
    rest = [f for f in fields if f not in head and f.split(":")[0] not in mand]
    doms = [(met, vals) for met, vals in g["metrics"] if met in mand]
    for keep_rest in (True, False):
        for combo in itertools.product(*[vals for _, vals in doms]):
            cand = "/".join(head + [m + ":" + v for (m, _), v in zip(doms, combo)] + (rest if keep_rest else []))
            try:
                if cls(cand).scores()[0] == want:
                    return cand
            except Exception:  # noqa: BLE001
                continue
    return None


def r_c12(p):
    import cvss
    from cvss import exceptions as X

    version = p["version"]
    vec = p["vector"]
    cls = _cls(version)
    n = "CVSS%d" % version
    o = cls(vec)
    probs = []
    if "score_text" in p and "abstract_base" in p and o.scores()[0] != p["abstract_base"]:
        # the solver's witness fixes (base score, score text); find a real vector with that score
        alt = _vector_with_base(version, vec, p["abstract_base"])
        if alt is not None:
            vec = alt
            o = cls(vec)
    rh = o.rh_vector()
    base = o.scores()[0]
    if rh != ("%.1f" % base) + "/" + o.clean_vector() or wellformed(base, False):
        probs.append("rh_vector() = %r for base score %r and cleaned vector %r" % (rh, base, o.clean_vector()))
    try:
        if not (cls.from_rh_vector(rh) == o):
            probs.append("from_rh_vector(rh_vector()) != x")
    except Exception as e:  # noqa: BLE001
        probs.append("from_rh_vector(%r) raises %s" % (rh, type(e).__name__))
    texts = [p["score_text"]] if "score_text" in p else []
    if "score_text_rel" in p:
        from decimal import Decimal

        d = p["score_text_rel"]
        b = Decimal(repr(float(base)))
        texts = [str(b) + d[2:] if d in ("0.0", "0.00") else str(b + Decimal(d))]
    if texts and "abstract_base" in p and base != p["abstract_base"]:
        # no real vector has the witness' abstract base score: same question for the witness'
        # vector with its real base score, over the check's finite score-text alphabet
        texts += [t for t in p.get("alphabet", []) if t not in texts]
    for t in texts:
        if probs:
            break
        s = t + "/" + o.clean_vector()
        try:
            f = float(t)
            want = "ok" if f == base else "mismatch"
        except ValueError:
            want = "malformed"
        try:
            r = cls.from_rh_vector(s)
            got = "ok" if r == o else "ok-but-different-object"
        except getattr(X, n + "RHMalformedError"):
            got = "malformed"
        except getattr(X, n + "RHScoreDoesNotMatch"):
            got = "mismatch"
        except Exception as e:  # noqa: BLE001
            got = "foreign:%s" % type(e).__name__
        if got != want:
            probs.append("from_rh_vector(%r): library %s, expected %s (base score %r)" % (s, got, want, base))
    return {"violates": bool(probs), "vector": vec, "problems": probs[:4]}


def r_c12_raw(p):
    from cvss import exceptions as X

    version = p["version"]
    cls = _cls(version)
    n = "CVSS%d" % version
    try:
        cls.from_rh_vector(p["text"])
        got = "accepted"
    except getattr(X, n + "RHMalformedError"):
        got = "malformed"
    except Exception as e:  # noqa: BLE001
        got = "other:%s" % type(e).__name__
    return {"violates": got != "malformed", "text": p["text"], "library": got}


def r_c18(p):
    """observable consequences only: an accessor that raises, returns something else on
    repetition (also after the caller mutated earlier results) or differs from a fresh object.
    A change of internal state that no accessor shows is reported separately (`state_changes`):
    it breaks the check's inductive argument (-> inconclusive), not the property."""
    import copy

    from spec import grammar as G

    version = p["version"]
    cls = _cls(version)
    vec0 = p["vector"]
    mand = set(G.GRAMMARS[version]["mandatory"])
    base_only = "/".join(f for f in vec0.split("/") if f.split(":")[0] in mand or f.startswith("CVSS:"))
    probs = []
    state_changes = []
    calls = [("scores", {}), ("severities", {}), ("clean_vector", {}), ("rh_vector", {})]
    if version != 2:
        calls.append(("clean_vector", {"output_prefix": False}))
    if version in (2, 3):
        calls += [("temporal_vector", {}), ("environmental_vector", {})]
    for s in (False, True):
        for mn in (False, True):
            calls.append(("as_json", {"sort": s, "minimal": mn}))
    calls.append(("__hash__", {}))
    orders = [calls, list(reversed(calls)), calls[-5:-1][::-1] + calls[:-5] + calls[-1:]]
    for vec in ([vec0] if base_only == vec0 else [vec0, base_only]):
        for order in orders:
            o = cls(vec)
            first = {}
            for rnd in range(3):
                for name, kw in order:
                    before = copy.deepcopy(vars(o))
                    try:
                        r = getattr(o, name)(**kw)
                    except Exception as e:  # noqa: BLE001
                        probs.append("%s: %s raises %s" % (vec, name, type(e).__name__))
                        continue
                    if repr(before) != repr(vars(o)):
                        state_changes.append("%s%r changes the instance state" % (name, kw))
                    key = (name, tuple(sorted(kw.items())))
                    fresh = getattr(cls(vec), name)(**kw)
                    if repr(fresh) != repr(r):
                        probs.append("%s: %s%r returns %r, a fresh object %r" % (vec, name, kw, r, fresh))
                    if key in first and repr(first[key]) != repr(r):
                        probs.append("%s: %s%r returns %r, earlier %r" % (vec, name, kw, r, first[key]))
                    first.setdefault(key, copy.deepcopy(r))
                    if isinstance(r, dict):
                        r["vectorString"] = "tampered"
                        r["baseScore"] = -1.0
                        r.pop("version", None)
            try:
                if not (o == o) or not (o == cls(vec)):
                    probs.append("%s: x != x after the accessor calls" % vec)
            except Exception as e:  # noqa: BLE001
                probs.append("== raises %s" % type(e).__name__)
    res = {"violates": bool(probs), "vector": vec0, "problems": probs[:5]}
    if not probs and state_changes:
        res["violates"] = None
        res["inconclusive"] = "an accessor changes the object's internal state (%s); no accessor result shows it in the replayed call orders, but the frame-condition induction no longer applies" % state_changes[0]
    return res


def _official_pattern(version, minor):
    import json, os

    sv = {2: "2.0", 3: "3.%s" % minor, 4: "4.0"}[version]
    fn = {"2.0": "cvss-v2.0.json", "3.0": "cvss-v3.0.json", "3.1": "cvss-v3.1.json", "4.0": "cvss-v4.0.json"}[sv]
    here = os.path.dirname(os.path.dirname(os.path.abspath(__file__)))
    with open(os.path.join(here, "spec", "schemas", fn)) as f:
        return sv, json.load(f)


def r_c08(p):
    import re

    version = p["version"]
    vec = p["vector"]
    cls = _cls(version)
    o = cls(vec)
    minor = vec.split("/")[0][-1] if version == 3 else None
    sv, schema = _official_pattern(version, minor)
    pat = schema["properties"]["vectorString"]["pattern"]
    probs = []
    key = None
    for nm, s in (("clean_vector", o.clean_vector()), ("rh_vector", o.rh_vector().split("/", 1)[1])):
        try:
            cls(s)
        except Exception as e:  # noqa: BLE001
            probs.append("%s() = %r is rejected by the library's own parser (%s)" % (nm, s, type(e).__name__))
        if re.search(pat, s) is None:
            probs.append("%s() = %r does not match the official pattern" % (nm, s))
            key = key or "v%d.%s.official-pattern" % (version, nm)
    res = {"violates": bool(probs), "vector": vec, "problems": probs[:4]}
    if key and p.get("finding_key") and all("official pattern" in x for x in probs):
        res["finding_key"] = p["finding_key"] if p["finding_key"].split(".")[1] in [x.split("(")[0] for x in probs] else key
    return res


def r_c10(p):
    import json

    from spec import grammar, schema_concrete

    version = p["version"]
    vec = p["vector"]
    cls = _cls(version)
    if "abstract_score" in p and version == 4:
        pass
    o = cls(vec)
    minor = vec.split("/")[0][-1] if version == 3 else None
    sv, schema = _official_pattern(version, minor)
    data = json.loads(json.dumps(o.as_json(sort=p["sort"], minimal=p["minimal"])))
    pre = "v%s.as_json" % sv
    fails = schema_concrete.failing_parts(schema, data, pre)
    keys = []
    for f in fails:
        k = f
        if f.endswith(".pattern"):
            # is it only the field order of the input?
            m, _ = grammar.parse(version, vec) if grammar.is_valid(version, vec) else ({}, None)
            canon = ([vec.split("/")[0]] if version != 2 else []) + [a + ":" + m[a] for a, _ in grammar.GRAMMARS[version]["metrics"] if a in m]
            d2 = dict(data)
            d2["vectorString"] = "/".join(canon)
            if "/".join(canon) != vec and not [x for x in schema_concrete.failing_parts(schema, d2, pre) if x.endswith(".pattern")]:
                k = f + ".noncanonical-input-order"
        if ".allOf[" in f or ".anyOf[" in f:
            d2 = dict(data)
            for sk in ("baseSeverity", "threatSeverity", "environmentalSeverity"):
                if isinstance(d2.get(sk), str):
                    d2[sk] = d2[sk].upper()
            if f not in schema_concrete.failing_parts(schema, d2, pre):
                k = f + ".case"
        keys.append(k)
    want = p.get("part")
    hit = want in keys
    res = {"violates": hit or (bool(keys) and want is None), "vector": vec, "options": [p["sort"], p["minimal"]], "failing_parts": keys[:8]}
    if hit:
        res["finding_key"] = want
    elif keys:
        # a different part fails for this input than the one the solver pointed at
        res["violates"] = True
        res["finding_key"] = keys[0]
    return res


def r_c11(p):
    """v3/v4 run with ABSTRACT scores in the check: a witness fixes which metrics are present and
    a (score, rating) pattern that its own vector need not have.  If the witness vector itself
    shows nothing, other value assignments with the same set of present metrics are tried
    (bounded, seeded): the replay confirms a real input or reports that none was found."""
    res = _r_c11_one(p)
    if res.get("violates") or p.get("version") == 2:
        return res
    import random

    from spec import grammar

    version = p["version"]
    g = grammar.GRAMMARS[version]
    table = dict(g["metrics"])
    fields = p["vector"].split("/")
    head = [f for f in fields if f.startswith("CVSS:")]
    mets = [f.split(":")[0] for f in fields if not f.startswith("CVSS:")]
    rng = random.Random(11)
    for _ in range(600):
        cand = "/".join(head + [m_ + ":" + rng.choice(table[m_]) for m_ in mets])
        q = dict(p)
        q["vector"] = cand
        try:
            r2 = _r_c11_one(q)
        except Exception:  # noqa: BLE001
            continue
        if r2.get("violates"):
            r2["found_by"] = "search over value assignments with the witness' set of present metrics"
            return r2
    return res


def _r_c11_one(p):
    from spec import grammar, json_names as JN

    version = p["version"]
    vec = p["vector"]
    cls = _cls(version)
    o = cls(vec)
    m, minor = grammar.parse(version, vec)
    nd = "ND" if version == 2 else "X"
    g = grammar.GRAMMARS[version]
    probs = []
    sc, sv = o.scores(), o.severities()
    outs = {}
    for sort in (False, True):
        for minimal in (False, True):
            js = o.as_json(sort=sort, minimal=minimal)
            outs[(sort, minimal)] = js
            opt = "as_json(sort=%s,minimal=%s)" % (sort, minimal)
            okv = ["3.%s" % minor] if version == 3 else JN.VERSION_FIELD[version]
            if js.get("version") not in okv:
                probs.append("%s version %r" % (opt, js.get("version")))
            if js.get("vectorString") != vec:
                probs.append("%s vectorString %r" % (opt, js.get("vectorString")))
            if "baseScore" not in js:
                probs.append("%s lacks baseScore" % opt)
            for i, (sk, vk) in enumerate(JN.SCORE_KEYS[version]):
                if sk in js and sc[i] is not None and repr(js[sk]) != repr(sc[i]):
                    probs.append("%s %s=%r, score %r" % (opt, sk, js[sk], sc[i]))
                if vk and vk in js and str(js[vk]).upper() != str(sv[i]).upper():
                    probs.append("%s %s=%r, rating %r" % (opt, vk, js[vk], sv[i]))
            for met, _ in g["metrics"]:
                keys, names = JN.TABLES[version][met]
                v = m.get(met)
                if v is None or v == nd:
                    if met.startswith("M") and version in (3, 4) and met[1:] in m:
                        want = names.get(m[met[1:]], [])
                    else:
                        want = [JN.ND]
                else:
                    want = names[v]
                pk = [k for k in keys if k in js]
                grp = "base" if met in g["mandatory"] else ("temporal" if met in g.get("temporal", []) else "environmental")
                must = grp == "base" or version == 4 or not minimal
                if not must:
                    lst = g[grp]
                    must = any(m.get(x) not in (None, nd) for x in lst)
                if must and not pk:
                    probs.append("%s lacks the field of %s" % (opt, met))
                for k in pk:
                    if js[k] not in want:
                        probs.append("%s %s=%r, effective value of %s is named %r" % (opt, k, js[k], met, want))
    for minimal in (False, True):
        a, b = outs[(False, minimal)], outs[(True, minimal)]
        if dict(a) != dict(b) or list(b.keys()) != sorted(b.keys()):
            probs.append("sort=True changes items or is not ascending")
    for sort in (False, True):
        full, mini = outs[(sort, False)], outs[(sort, True)]
        if any(k not in full or full[k] != mini[k] for k in mini):
            probs.append("minimal output is not a subset of the full output")
    return {"violates": bool(probs), "vector": vec, "problems": probs[:5]}


def r_c17(p):
    import os
    import subprocess
    import sys

    import cvss

    argv = p["argv"]
    vec = argv[argv.index("-v") + 1] if "-v" in argv else None
    sel = [k for k in ("-2", "-3", "-4") if k in argv]
    version = {"-2": 2, "-3": 3.0, "-4": 4.0}[sel[0]] if sel else 3.1
    interactive = {2: "AV:N/AC:L/Au:N/C:P/I:P/A:P", 3.0: "CVSS:3.0/AV:N/AC:L/PR:N/UI:N/S:U/C:H/I:H/A:H", 3.1: "CVSS:3.1/AV:N/AC:L/PR:N/UI:N/S:U/C:H/I:H/A:H", 4.0: "CVSS:4.0/AV:N/AC:L/AT:N/PR:N/UI:N/VC:H/VI:H/VA:H/SC:N/SI:N/SA:N"}
    stdin = ""
    eof = False
    if vec is None:
        if p.get("interactive_outcome") == "vector":
            fields = interactive[version].split("/")
            if version != 2:
                fields = fields[1:]
            stdin = "".join(f.split(":")[1] + "\n" for f in fields) + "\n" * 40
            vec = interactive[version]
        else:
            eof = True
    env = dict(os.environ)
    env["PYTHONPATH"] = os.environ.get("CVSS_REPO", "/repo")
    pr = subprocess.run([sys.executable, "-m", "cvss.cvss_calculator"] + argv, input=stdin, capture_output=True, text=True, timeout=60, env=env, cwd="/")
    probs = []
    if pr.returncode != 0:
        probs.append("exit status %d" % pr.returncode)
    if "Traceback" in pr.stderr:
        probs.append("traceback: %s" % pr.stderr.strip().splitlines()[-1])
    if not eof:
        cls = {2: cvss.CVSS2, 3.0: cvss.CVSS3, 3.1: cvss.CVSS3, 4.0: cvss.CVSS4}[version]
        try:
            o = cls(vec)
            names = ["Base Score", "Temporal Score", "Environmental Score"]
            want = ["CVSS%d" % int(version)]
            sev = o.severities() if version >= 3.0 else None
            for i, s in enumerate(o.scores()):
                head = names[i] + ":" + " " * (24 - len(names[i]) - 2)
                want.append(head + ("%s (%s)" % (s, sev[i]) if version >= 3.0 else "%s" % (s,)))
            want.append("Cleaned vector:        " + o.clean_vector())
            want.append("Red Hat vector:        " + o.rh_vector())
            if "-j" in argv:
                import json

                want.append("CVSS vector in JSON:")
                want += json.dumps(o.as_json(sort=True, minimal=True), indent=2).splitlines()
        except cvss.CVSSError as e:
            want = [str(e)]
        got = pr.stdout.splitlines()
        if got[-len(want):] != want:
            probs.append("stdout ends with %r, the library API prescribes %r" % (got[-len(want):][:4], want[:4]))
        elif "-v" in argv and got != want:
            probs.append("extra output before the prescribed lines: %r" % (got[:2],))
    res = {"violates": bool(probs), "argv": argv, "problems": probs[:3]}
    if probs and vec == "" and "-v" in argv:
        res["finding_key"] = "cli.empty-vector-goes-interactive"
    return res


def _c13_check(text, expect_vectors=None):
    from cvss.parser import parse_cvss_from_text
    from spec import grammar

    probs = []
    try:
        res = parse_cvss_from_text(text)
    except Exception as e:  # noqa: BLE001
        return ["parse_cvss_from_text raises %s: %s" % (type(e).__name__, e)]
    for i, a in enumerate(res):
        ver = {"CVSS2": 2, "CVSS3": 3, "CVSS4": 4}.get(type(a).__name__)
        if ver is None or not isinstance(a.vector, str) or a.vector not in text or not grammar.is_valid(ver, a.vector):
            probs.append("returned %s built from %r, which is not a valid vector of that version occurring in the text" % (type(a).__name__, getattr(a, "vector", None)))
        for b in res[i + 1:]:
            if a == b:
                probs.append("two equal objects returned (%r, %r)" % (a.vector, b.vector))
    for v, ver in expect_vectors or []:
        cls = _cls(ver)
        if not any(isinstance(o, cls) and o == cls(v) for o in res):
            probs.append("the delimited valid vector %r is not returned" % v)
    return probs


def r_c13(p):
    from spec import grammar

    cands = p["candidates"]
    text = "Advisory: " + " ; ".join(cands) + " (end)"
    exp = []
    for c in cands:
        if grammar.is_valid(3, c):
            exp.append((c, 3))
        elif grammar.is_valid(2, c):
            exp.append((c, 2))
    probs = _c13_check(text, exp)
    return {"violates": bool(probs), "text": text, "problems": probs[:4]}


def r_c13_text(p):
    probs = _c13_check(p["text"], [(p["vector"], p["version"])])
    return {"violates": bool(probs), "text": p["text"], "problems": probs[:4]}


def r_c13_except(p):
    # a constructor error escaping: probe the real function with many malformed candidates
    texts = ["CVSS:3.1/AV:N/AC:L/PR:N/UI:N/S:U/C:H/I:H", "CVSS:3.1/AV:N/AC:L/PR:N/UI:N/S:Z/C:H/I:H/A:H", "AV:N/AC:L/Au:N/C:P/I:P/E:F/RL:OF", "AV:N/AC:L/Au:N/C:P/I:P/A:Z/E:ND",
             "CVSS:3.1/AV:N/AC:L/PR:N/UI:N/S:U/C:H/I:H/A:H/MPR:Q", "CVSS:3.7/AV:N/AC:L/PR:N/UI:N/S:U/C:H/I:H/A:H", "thisisalongwordwithoutanycolonsorslashes"]
    probs = []
    for t in texts:
        probs += _c13_check("x " + t + " y")
    return {"violates": bool(probs), "problems": probs[:4]}


def r_c19(p):
    """history / ambient-state probe on the real library: module globals, decimal context and
    stdout/stderr must be untouched by a workload, and probe outputs after the workload must
    equal those of a fresh process"""
    import contextlib
    import copy
    import decimal
    import io
    import json
    import os
    import subprocess
    import sys

    probes = [p["vector"]] + list(p.get("extra_vectors", [])) + [
        "AV:N/AC:L/Au:N/C:P/I:P/A:C", "AV:N/AC:L/Au:N/C:P/I:P/A:Z", "CVSS:3.1/AV:N/AC:L/PR:N/UI:N/S:U/C:H/I:H/A:H", "CVSS:3.0/AV:N/AC:L/PR:L/UI:N/S:C/C:H/I:H/A:H/MS:U",
        "CVSS:3.1/AV:W/AC:L/PR:N/UI:N/S:U/C:H/I:H/A:H", "CVSS:3.1/AV:N/AC:L/PR:N/UI:N/S:Z/C:H/I:H/A:H", "CVSS:3.1/AV:N/AC:L/PR:N/UI:N/S:U/C:H/I:H/A:H/XX:Y",
        "CVSS:4.0/AV:N/AC:L/AT:N/PR:N/UI:N/VC:H/VI:H/VA:H/SC:N/SI:N/SA:N", "CVSS:4.0/AV:N/AC:L/AT:N/PR:N/UI:N/VC:H/VI:H/VA:H/SC:N/SI:N/SA:Q", "", "foo"]
    texts = list(p.get("texts", [])) + ["see CVSS:3.1/AV:N/AC:L/PR:N/UI:N/S:U/C:H/I:H/A:H and AV:N/AC:L/Au:N/C:P/I:P/A:C."]
    code = r'''
import json, sys
import cvss
from cvss.parser import parse_cvss_from_text
probes = json.loads(sys.argv[1]); texts = json.loads(sys.argv[2])
def observe(s):
    out = []
    for cls in (cvss.CVSS2, cvss.CVSS3, cvss.CVSS4):
        try:
            o = cls(s)
            out.append([repr(o.scores()), o.clean_vector(), sorted(o.as_json(minimal=True).items()).__repr__()])
        except Exception as e:
            out.append(["raises", type(e).__name__])
    return out
res = [observe(s) for s in probes] + [sorted(o.clean_vector() for o in parse_cvss_from_text(t)) for t in texts]
print(json.dumps(res))
'''
    env = dict(os.environ)
    env["PYTHONPATH"] = os.environ.get("CVSS_REPO", "/repo")
    fresh = []
    for s in probes:
        pr = subprocess.run([sys.executable, "-c", code, json.dumps([s]), "[]"], capture_output=True, text=True, env=env, timeout=60)
        fresh.append(json.loads(pr.stdout.strip().splitlines()[-1])[0] if pr.returncode == 0 and pr.stdout.strip() else ["fresh process failed", pr.stderr[-200:]])
    import cvss
    from cvss import constants2, constants3, constants4
    from cvss.parser import parse_cvss_from_text

    def snapshot():
        d = {}
        for mod in [cvss.cvss2, cvss.cvss3, cvss.cvss4, constants2, constants3, constants4, cvss.parser, cvss.exceptions, cvss.interactive]:
            for k, v in vars(mod).items():
                if k.startswith("__") or callable(v) or isinstance(v, type(sys)):
                    continue
                d[mod.__name__ + "." + k] = repr(v)
        for c in (cvss.CVSS2, cvss.CVSS3, cvss.CVSS4):
            for k, v in vars(c).items():
                if not callable(v) and not k.startswith("__") and not isinstance(v, (classmethod, staticmethod)):
                    d[c.__name__ + "." + k] = repr(v)
        return d

    probs = []
    ctx0 = repr(decimal.getcontext())
    path0 = list(sys.path)
    snap0 = snapshot()
    out, err = io.StringIO(), io.StringIO()
    with contextlib.redirect_stdout(out), contextlib.redirect_stderr(err):
        for rnd in range(2):
            for s in probes:
                for cls in (cvss.CVSS2, cvss.CVSS3, cvss.CVSS4):
                    try:
                        o = cls(s)
                        o.scores(); o.severities(); o.clean_vector(); o.rh_vector(); o.as_json(sort=True, minimal=True); hash(o); o == o
                        cls.from_rh_vector(o.rh_vector())
                    except Exception:  # noqa: BLE001
                        pass
            for t in texts:
                parse_cvss_from_text(t)
    if snapshot() != snap0:
        a, b = snap0, snapshot()
        ch = [k for k in set(a) | set(b) if a.get(k) != b.get(k)]
        probs.append("module-level state changed: %s" % ", ".join(sorted(ch)[:4]))
    if repr(decimal.getcontext()) != ctx0:
        probs.append("decimal context changed")
    if sys.path != path0:
        probs.append("sys.path changed")
    if out.getvalue() or err.getvalue():
        probs.append("library wrote to stdout/stderr: %r" % ((out.getvalue() + err.getvalue())[:100],))
    # history dependence: same probes after the workload
    def observe(s):
        res = []
        for cls in (cvss.CVSS2, cvss.CVSS3, cvss.CVSS4):
            try:
                o = cls(s)
                res.append([repr(o.scores()), o.clean_vector(), repr(sorted(o.as_json(minimal=True).items()))])
            except Exception as e:  # noqa: BLE001
                res.append(["raises", type(e).__name__])
        return res

    for s, f in zip(probes, fresh):
        now = observe(s)
        if now != f:
            probs.append("result for %r depends on history: fresh process %r, after workload %r" % (s, f, now))
    # decimal context
    if "context" in p:
        rnd, prec = p["context"]
        cls = _cls(p["version"])
        base = cls(p["vector"]).scores()
        with decimal.localcontext(decimal.Context(prec=prec, rounding=getattr(decimal, rnd))):
            alt = cls(p["vector"]).scores()
        if repr(base) != repr(alt):
            probs.append("scores %r under the default context, %r under (%s, prec %d)" % (base, alt, rnd, prec))
    return {"violates": bool(probs), "vector": p["vector"], "problems": probs[:4]}


def r_c14(p):
    cls = _cls(p["version"])
    a, b = cls(p["a"]), cls(p["b"])
    sa, sb = a.scores(), b.scores()
    probs = []
    names = ["base", "temporal", "environmental"]
    for i, (x, y) in enumerate(zip(sa, sb)):
        if p["version"] == 2 and i == 2:
            continue
        if x is None and y is None:
            continue
        if (x is None) != (y is None) or y < x:
            probs.append("%s score %r -> %r" % (names[i], x, y))
    return {"violates": bool(probs), "a": p["a"], "b": p["b"], "scores_a": repr(sa), "scores_b": repr(sb), "problems": probs}


def r_c14_table(p):
    """a non-monotone lookup entry: find a pair of vectors one severity step apart that shows it"""
    import random

    import cvss
    from spec import grammar as G

    hi, lo = p["higher"], p["lower"]
    rng = random.Random(7)
    g = G.V4
    order = {"AV": "PLAN", "AC": "HL", "AT": "PN", "PR": "HLN", "UI": "APN", "VC": "NLH", "VI": "NLH", "VA": "NLH", "SC": "NLH", "SI": "NLH", "SA": "NLH", "E": "UPA", "CR": "LMH", "IR": "LMH", "AR": "LMH"}
    found = None
    for _ in range(400000):
        parts = {}
        for met, vals in g["metrics"]:
            if met in g["mandatory"] or (met in ("E", "CR", "IR", "AR") and rng.random() < 0.8):
                parts[met] = rng.choice([v for v in vals if v != "X"])
        def vec(d):
            return "CVSS:4.0/" + "/".join(k + ":" + d[k] for k, _ in g["metrics"] if k in d)
        o = cvss.CVSS4(vec(parts))
        if o.macroVector() != lo:
            continue
        for met, od in order.items():
            cur = parts.get(met, {"E": "A", "CR": "H", "IR": "H", "AR": "H"}.get(met))
            i = od.index(cur)
            if i + 1 < len(od):
                d2 = dict(parts)
                d2[met] = od[i + 1]
                o2 = cvss.CVSS4(vec(d2))
                if o2.base_score < o.base_score:
                    found = (vec(parts), o.base_score, vec(d2), o2.base_score)
                    break
        if found:
            break
    if found:
        return {"violates": True, "a": found[0], "b": found[2], "scores": [found[1], found[3]], "what": "more severe value lowers the score"}
    tbl = dict(cvss.constants4.CVSS_LOOKUP_GLOBAL)
    return {"violates": tbl.get(lo, 0) > tbl.get(hi, 0), "what": "lookup[%s]=%r > lookup[%s]=%r (no concrete pair of vectors found by the search)" % (lo, tbl.get(lo), hi, tbl.get(hi))}


def r_c02_table(p):
    """MAX_COMPOSED / MAX_SEVERITY of the real module differ from the tables derived from the EQ
    definitions: show a vector whose score differs from the specification"""
    import random

    import cvss
    from spec import cvss4_spec, grammar as G

    rng = random.Random(11)
    g = G.V4
    for _ in range(300000):
        parts = ["CVSS:4.0"]
        for met, vals in g["metrics"]:
            if met in g["mandatory"] or rng.random() < 0.5:
                parts.append(met + ":" + rng.choice(vals))
        v = "/".join(parts)
        try:
            got = cvss.CVSS4(v).base_score
        except Exception as e:  # noqa: BLE001
            return {"violates": True, "vector": v, "what": "raises %s" % type(e).__name__}
        m_, _ = G.parse(4, v)
        full = {k: m_.get(k) for k in G.metric_names(g)}
        want = float(cvss4_spec.score(full))
        if got != want:
            return {"violates": True, "vector": v, "library": got, "specification": want}
    return {"violates": False, "what": "no score difference found in 300000 random vectors"}


def _interactive_run(version_key, all_metrics, no_colors, answers):
    """run the real ask_interactively with the given answers; returns (outcome, value, consumed)"""
    import contextlib
    import io

    import cvss.interactive as I

    ver = {"2": 2, "3.0": 3.0, "3.1": 3.1, "4.0": 4.0}[str(version_key)]
    left = list(answers)
    used = [0]

    def fake_input(*a):
        if not left:
            raise EOFError()
        used[0] += 1
        return left.pop(0)

    old = I.string_input
    I.string_input = fake_input
    buf = io.StringIO()
    try:
        with contextlib.redirect_stdout(buf):
            try:
                got = ("vector", I.ask_interactively(ver, bool(all_metrics), bool(no_colors)))
            except EOFError:
                got = ("eof", None)
            except Exception as e:  # noqa: BLE001
                got = ("raise", "%s: %s" % (type(e).__name__, e))
    finally:
        I.string_input = old
    return got[0], got[1], used[0]


def _interactive_metrics(version_key, all_metrics):
    """asking order (the library's own tables: the order is a convention, not the property) and
    legal values (the grammar typed from the standards)"""
    from spec import grammar

    v = str(version_key)
    version = {"2": 2, "3.0": 3, "3.1": 3, "4.0": 4}[v]
    g = grammar.GRAMMARS[version]
    if version == 2:
        from cvss import constants2 as K
    elif version == 3:
        from cvss import constants3 as K
    else:
        from cvss import constants4 as K
    order = list(K.METRICS_ABBREVIATIONS.keys()) if all_metrics else list(K.METRICS_MANDATORY)
    prefix = {"2": "", "3.0": "CVSS:3.0/", "3.1": "CVSS:3.1/", "4.0": "CVSS:4.0/"}[v]
    return version, g, order, prefix


def r_c16(p):
    from spec import grammar

    version, g, order, prefix = _interactive_metrics(p["version"], p["all_metrics"])
    nd = "ND" if version == 2 else "X"
    answers = list(p["answers"])
    if answers and isinstance(answers[0], (list, tuple)):
        # [metric, retry index, answer] triples of the symbolic run: flatten them in asking order,
        # per metric up to and including the first answer that is legal by the property's rule
        per = {}
        for met, r, a in answers:
            per.setdefault(met, []).append((r, a))
        flat = []
        for met in order:
            legal = grammar.legal(g, met) if met in dict(g["metrics"]) else []
            for r, a in sorted(per.get(met, [])):
                flat.append(a)
                t = a.strip() or nd
                if any(val.upper() == t.upper() for val in legal):
                    break
        answers = flat
    # expected: per metric the first legal answer (case-insensitive; empty = Not Defined where legal)
    left = list(answers)
    fields = []
    exp = None
    for met in order:
        legal = grammar.legal(g, met) if met in dict(g["metrics"]) else None
        if legal is None:
            return {"violates": True, "what": "the builder asks for %r, which is not a metric of the version" % met}
        chosen = None
        while chosen is None:
            if not left:
                exp = ("eof", None)
                break
            a = left.pop(0).strip()
            if a == "":
                a = nd
            for val in legal:
                if val.upper() == a.upper():
                    chosen = val
                    break
        if exp is not None:
            break
        fields.append(met + ":" + chosen)
    if exp is None:
        exp = ("vector", prefix + "/".join(fields))
    kind, val, used = _interactive_run(p["version"], p["all_metrics"], p.get("no_colors", True), answers)
    probs = []
    if (kind, val) != exp:
        probs.append("builder: %s %r; first legal answers give: %s %r" % (kind, val, exp[0], exp[1]))
    elif kind == "vector":
        if used != len(answers) - len(left):
            probs.append("builder consumed %d answers, %d expected" % (used, len(answers) - len(left)))
        try:
            _cls(version)(val)
        except Exception as e:  # noqa: BLE001
            probs.append("the class rejects the built vector %r: %s" % (val, type(e).__name__))
    return {"violates": bool(probs), "answers": answers, "problems": probs}


def r_c16_select(p):
    from spec import grammar

    version, g, order, prefix = _interactive_metrics(p["version"], p["all_metrics"])
    met, want = p["metric"], p["value"]
    answers = []
    for m_ in order:
        answers.append(want if m_ == met else grammar.legal(g, m_)[0])
    tried = []
    for variant in (want, want.upper(), want.lower()):
        a = [variant if m_ == met else x for m_, x in zip(order, answers)]
        kind, val, used = _interactive_run(p["version"], p["all_metrics"], True, a)
        tried.append((variant, kind, val))
        if kind == "vector" and (met + ":" + want) in val.split("/"):
            return {"violates": False, "selected_by": variant, "vector": val}
    res = {"violates": True, "what": "no spelling of %s selects %s:%s" % (want, met, want), "tried": tried}
    if p.get("finding_key"):
        res["finding_key"] = p["finding_key"]
    return res


def r_c16_answer(p):
    """witness of the free-answer lemma: the answer typed (bare and padded with white space) at
    the question for one metric, followed by a legal answer; all other questions answered legally"""
    from spec import grammar

    vkey = {2: "2", 3: "3.1", 4: "4.0"}[p["version"]]
    version, g, order, prefix = _interactive_metrics(vkey, True)
    res = None
    for ans in (p["answer"], " " + p["answer"] + "\t"):
        answers = []
        for m_ in order:
            if m_ == p["metric"]:
                answers.append(ans)
            answers.append(grammar.legal(g, m_)[0])
        res = r_c16({"version": vkey, "all_metrics": True, "answers": answers})
        if res.get("violates"):
            return res
    return res


HANDLERS = {"c16_answer": r_c16_answer, "c16": r_c16, "c16_select": r_c16_select, "c02_table": r_c02_table, "c14": r_c14, "c14_table": r_c14_table, "c19": r_c19, "c13": r_c13, "c13_text": r_c13_text, "c13_except": r_c13_except, "c17": r_c17, "c08": r_c08, "c10": r_c10, "c11": r_c11, "c15": r_c15, "c12": r_c12, "c12_raw": r_c12_raw, "c18": r_c18, "parse_step": r_parse_step, "parse_pre": r_parse_pre, "mandatory": r_mandatory, "parse_comm": r_parse_comm, "relational": r_relational, "c09": r_c09, "macrovector4": r_macrovector4, "c07_single": r_c07_single, "c07_pair": r_c07_pair, "c07_foreign": r_c07_foreign}
