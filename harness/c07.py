"""
C07: clean_vector() is a canonical form (exactly the defined metrics, once each, fixed order,
prefix rule); re-parsing it gives an equal object with the same scores and cleaned vector;
== holds exactly for same version (3.0 != 3.1) and same defined metric values; equal objects have
equal hashes; an object never equals a value of another type or version.
"""

import sys

from pysymex import structstr as SS

from . import common as C
from . import objects as O
from .common import ABSENT, G, U, Check, Cond, Session, StructStr, SymDict, SymList, unsat_or_cex
from .scores import split_tasks

ND = {2: "ND", 3: "X", 4: "X"}


def defined_guard(sess, version, var):
    m = sess.m
    bad = [m.atom(var, lab) for lab in var.domain if lab is ABSENT or lab == ND[version]]
    return m.NOT(m.or_all(bad))


def analyse_clean(sess, chk, version, vars_, clean, with_prefix, label, mk_replay, prefix=""):
    """the structured string returned by clean_vector() lists exactly the defined metrics"""
    m, vc = sess.m, sess.vc
    g_ = G.GRAMMARS[version]
    if not isinstance(clean, StructStr):
        raise C.Unsupported("clean_vector() did not return a structured string: %r" % (clean,))
    chunks = [c for c in clean.chunks if m.find(c[0]) is not m.FALSE]
    idx = 0
    if with_prefix and version != 2:
        if not chunks:
            O.must_not(sess, chk, m.TRUE, "%s: clean_vector() has no prefix" % label, mk_replay)
            return
        g0, s0 = chunks[0]
        O.must_hold(sess, chk, g0, "%s: prefix chunk always present" % label, mk_replay)
        for ga, leaf in vc.alts(s0):
            if version == 4:
                ok = m.TRUE if leaf == "CVSS:4.0" else m.FALSE
            else:
                mv = vars_.get("minor")
                if mv is None:
                    ok = m.TRUE if leaf == "CVSS:3.1" else m.FALSE
                else:
                    ok = m.or_all([m.atom(mv, lab) for lab in mv.domain if leaf == "CVSS:3." + lab])
            O.must_not(sess, chk, m.AND(ga, m.NOT(ok)), "%s: prefix %r only for its own version" % (label, leaf), mk_replay)
        idx = 1
    seen = {}
    for g, s in chunks[idx:]:
        mets = set()
        for ga, leaf in vc.alts(s):
            parts = leaf.split(":") if isinstance(leaf, str) else []
            if len(parts) != 2 or parts[0] not in vars_:
                O.must_not(sess, chk, m.AND(g, ga), "%s: emitted field %r is not metric:value of this version" % (label, leaf), mk_replay)
                continue
            mets.add(parts[0])
            var = vars_[parts[0]]
            if parts[1] not in var.index or parts[1] == ND[version]:
                O.must_not(sess, chk, m.AND(g, ga), "%s: emitted field %r is not a defined value" % (label, leaf), mk_replay)
                continue
            O.must_not(sess, chk, m.AND(m.AND(g, ga), m.NOT(m.atom(var, parts[1]))), "%s: field %r emitted only when the metric has that value" % (label, leaf), mk_replay)
        if len(mets) != 1:
            if mets:
                O.must_not(sess, chk, g, "%s: one output position carries different metrics %r (order depends on the values)" % (label, sorted(mets)), mk_replay)
            continue
        met = mets.pop()
        if met in seen:
            O.must_not(sess, chk, m.AND(g, seen[met]), "%s: metric %s emitted twice" % (label, met), mk_replay)
            seen[met] = m.OR(seen[met], g)
        else:
            seen[met] = g
    for met, _ in g_["metrics"]:
        if met not in vars_:
            continue
        dg = defined_guard(sess, version, vars_[met])
        pres = seen.get(met, m.FALSE)
        O.must_not(sess, chk, m.XOR(pres, dg), "%s: %s listed exactly when it has a defined value" % (label, met), mk_replay)


def task_canonical(version, fixed, label):
    chk = Check("C07")
    sess = Session()
    vars_ = sess.assign_vars(version, fixed=fixed)
    vc, m = sess.vc, sess.m

    def mk_replay(model, what):
        return {"kind": "c07_single", "version": version, "vector": sess.vector_string(version, model), "what": what}

    obj, vec, mod = O.make_object(sess, chk, version, vars_, label)
    if version == 2:
        clean = O.call_ok(sess, chk, obj, "clean_vector", label=label, mk_replay=mk_replay)
        analyse_clean(sess, chk, version, vars_, clean, False, label, mk_replay)
        clean_p = clean
    else:
        clean_p = O.call_ok(sess, chk, obj, "clean_vector", label=label, mk_replay=mk_replay)
        analyse_clean(sess, chk, version, vars_, clean_p, True, label + " prefix", mk_replay)
        clean_n = O.call_ok(sess, chk, obj, "clean_vector", kwargs={"output_prefix": False}, label=label, mk_replay=mk_replay)
        analyse_clean(sess, chk, version, vars_, clean_n, False, label + " no-prefix", mk_replay)
        clean_t = O.call_ok(sess, chk, obj, "clean_vector", kwargs={"output_prefix": True}, label=label, mk_replay=mk_replay)
        O.must_hold(sess, chk, O.eq_cond(sess, clean_t, clean_p), "%s: clean_vector(output_prefix=True) == clean_vector()" % label, mk_replay)
    # re-parse
    cls = mod.globals["CVSS%d" % version]
    obj2, raised = sess.call(cls, [clean_p])
    for cond, exc in raised:
        nm = type(exc).__name__ if isinstance(exc, BaseException) else exc.cls.name
        O.must_not(sess, chk, vc.c_any(cond), "%s: re-parsing the cleaned vector raises %s" % (label, nm), mk_replay)
    clean2 = O.call_ok(sess, chk, obj2, "clean_vector", label=label, mk_replay=mk_replay)
    O.must_hold(sess, chk, O.eq_cond(sess, clean2, clean_p), "%s: cleaned vector of the re-parsed object is the same string" % label, mk_replay)
    O.must_hold(sess, chk, O.eq_cond(sess, obj, obj2), "%s: x == reparse(x)" % label, mk_replay)
    O.must_hold(sess, chk, O.eq_cond(sess, obj2, obj), "%s: reparse(x) == x" % label, mk_replay)
    if version in (2, 3):
        s1 = O.items_of(O.call_ok(sess, chk, obj, "scores", label=label, mk_replay=mk_replay))
        s2 = O.items_of(O.call_ok(sess, chk, obj2, "scores", label=label, mk_replay=mk_replay))
        for i, (a, b) in enumerate(zip(s1, s2)):
            O.must_hold(sess, chk, O.eq_cond(sess, a, b), "%s: score[%d] of the re-parsed object is the same" % (label, i), mk_replay)
    else:
        # v4: the score is computed from the filled-in metric map only; the maps are equal
        m1 = obj.attrs["metrics"]
        m2 = obj2.attrs["metrics"]
        for k in m1.keys:
            if k not in m2.pres:
                O.must_not(sess, chk, m1.pres[k].l, "%s: metric map of re-parsed object lacks %s" % (label, k), mk_replay)
                continue
            O.must_hold(sess, chk, O.eq_cond(sess, m1.vals[k], m2.vals[k]), "%s: effective %s of the re-parsed object is the same" % (label, k), mk_replay)
    h1 = O.call_ok(sess, chk, obj, "__hash__", label=label, mk_replay=mk_replay)
    h2 = O.call_ok(sess, chk, obj2, "__hash__", label=label, mk_replay=mk_replay)
    O.must_hold(sess, chk, O.eq_cond(sess, h1, h2), "%s: hash(x) == hash(reparse(x))" % label, mk_replay)
    w = m.pattern_assignment(0)
    chk.witnesses.append({"task": label, "vector": sess.vector_string(version, w), "clean_vector": sess.concretize(clean_p, w)})
    chk.absorb(sess)
    return chk.to_dict()


def key_equal_guard(sess, version, va, vb):
    """oracle: same minor version and same defined value for every metric"""
    m = sess.m
    g = m.TRUE
    if version == 3:
        ma, mb = va["minor"], vb["minor"]
        g = m.or_all([m.AND(m.atom(ma, lab), m.atom(mb, lab)) for lab in ma.domain if lab in mb.index])
    for met, _ in G.GRAMMARS[version]["metrics"]:
        a, b = va[met], vb[met]
        terms = []
        for lab in a.domain:
            if lab is ABSENT or lab == ND[version]:
                continue
            if lab in b.index:
                terms.append(m.AND(m.atom(a, lab), m.atom(b, lab)))
        ua = m.NOT(defined_guard(sess, version, a))
        ub = m.NOT(defined_guard(sess, version, b))
        terms.append(m.AND(ua, ub))
        g = m.AND(g, m.or_all(terms))
    return g


FOREIGN_VECTORS = {
    2: "AV:N/AC:L/Au:N/C:P/I:P/A:P",
    3: "CVSS:3.1/AV:N/AC:L/PR:N/UI:N/S:U/C:H/I:H/A:H",
    4: "CVSS:4.0/AV:N/AC:L/AT:N/PR:N/UI:N/VC:H/VI:H/VA:H/SC:N/SI:N/SA:N",
}


def task_pairs(version):
    chk = Check("C07")
    sess = Session()
    vc, m = sess.vc, sess.m
    label = "v%d pairs" % version
    va = sess.assign_vars(version, prefix="a.")
    vb = sess.assign_vars(version, prefix="b.")
    mod = sess.load("cvss")
    C.set_epoch(1)
    sess.begin(mod)
    O.abstract_scores(sess, mod, version)
    sess._abs4 = True
    for v in (2, 3, 4):
        if v != version:
            O.abstract_scores(sess, mod, v)

    def strip(model, pfx):
        return {k[len(pfx):]: v for k, v in model.items() if k.startswith(pfx)}

    def mk_replay(model, what):
        return {"kind": "c07_pair", "version": version, "a": sess.vector_string(version, strip(model, "a.")), "b": sess.vector_string(version, strip(model, "b.")), "what": what}

    veca = sess.vector_from_vars(version, {k: v for k, v in va.items()})
    vecb = sess.vector_from_vars(version, {k: v for k, v in vb.items()})
    a, _, _ = O.make_object(sess, chk, version, va, label + " a", vec=veca, prefix="a.")
    b, _, _ = O.make_object(sess, chk, version, vb, label + " b", vec=vecb, prefix="b.")
    eq_ab = O.eq_cond(sess, a, b)
    eq_ba = O.eq_cond(sess, b, a)
    want = key_equal_guard(sess, version, va, vb)
    O.must_not(sess, chk, m.XOR(eq_ab.l, want), "%s: a == b exactly when same version and same defined metric values" % label, mk_replay)
    O.must_not(sess, chk, m.XOR(eq_ab.l, eq_ba.l), "%s: == is symmetric" % label, mk_replay)
    # != consistent with ==
    import ast

    ne = sess.it.truth(sess.it.compare(ast.NotEq, a, b, sess.top, vc.CT), sess.top, vc.CT)
    O.must_not(sess, chk, m.XOR(ne.l, m.NOT(eq_ab.l)), "%s: (a != b) == not (a == b)" % label, mk_replay)
    ha = O.call_ok(sess, chk, a, "__hash__", label=label, mk_replay=mk_replay)
    hb = O.call_ok(sess, chk, b, "__hash__", label=label, mk_replay=mk_replay)
    heq = O.eq_cond(sess, ha, hb)
    O.must_not(sess, chk, m.AND(eq_ab.l, m.NOT(heq.l)), "%s: a == b implies hash(a) == hash(b)" % label, mk_replay)
    ca = O.call_ok(sess, chk, a, "clean_vector", label=label, mk_replay=mk_replay)
    cb = O.call_ok(sess, chk, b, "clean_vector", label=label, mk_replay=mk_replay)
    ceq = O.eq_cond(sess, ca, cb)
    O.must_not(sess, chk, m.AND(eq_ab.l, m.NOT(ceq.l)), "%s: a == b implies identical cleaned vectors" % label, mk_replay)
    # reflexive (two evaluations of the accessors on one object)
    O.must_hold(sess, chk, O.eq_cond(sess, a, a), "%s: a == a" % label, mk_replay)
    # foreign values and other versions
    foreign = [("None", None), ("0", 0), ("''", ""), ("a tuple", ("AV", "N")), ("1.5", 1.5), ("the cleaned vector string itself", ca), ("a list", [1])]
    for v in (2, 3, 4):
        if v == version:
            continue
        o, raised = sess.call(mod.globals["CVSS%d" % v], [FOREIGN_VECTORS[v]])
        foreign.append(("a CVSS%d object" % v, o))
    for nm, o in foreign:
        e1 = O.eq_cond(sess, a, o)

        def mk_f(model, what, nm=nm):
            return {"kind": "c07_foreign", "version": version, "a": sess.vector_string(version, strip(model, "a.")), "other": nm, "what": what}

        O.must_not(sess, chk, e1.l, "%s: a == %s is False" % (label, nm), mk_f)
    w = m.pattern_assignment(0)
    chk.witnesses.append({"task": label, "a": sess.vector_string(version, strip(w, "a.")), "b": sess.vector_string(version, strip(w, "b."))})
    chk.absorb(sess)
    return chk.to_dict()


def task_cross_minor():
    """3.0 and 3.1 objects with the same metrics are different"""
    return task_pairs(3)


def main():
    chk = Check("C07")
    tasks = []
    for version in (2, 3):
        for t in split_tasks(version):
            tasks.append(("task_canonical", t))
    tasks.append(("task_canonical", (4, {}, "v4[score abstracted]")))
    for version in (2, 3, 4):
        tasks.append(("task_pairs", (version,)))
    results = C.run_named_tasks(sys.modules[__name__].__name__, tasks)
    for r in results:
        chk.absorb_dict(r)
    chk.input_model = "M-ASSIGN; canonical-form and re-parse lemmas on the real objects (v2 27, v3 48 sessions with real scoring; v4 with abstracted score); equality/hash lemmas on two independent symbolic objects per class (scores abstracted to arbitrary values)"
    chk.bounds = ["foreign values compared against: None, 0, '', a tuple, a float, the cleaned string itself, a list, one object of each other class (finite list)"]
    chk.outside = ["transitivity is not a separate query: == is proved equivalent to equality of (version, defined metric values), which is an equivalence relation", "field order of the input (C05)"]
    chk.stubs = ["pair lemmas: compute_*_score replaced by arbitrary scores (equality must not depend on them; if it does the counterexample is replayed)", "hash(): uninterpreted function of its argument"]
    chk.assumptions = ["hash of equal strings is equal (uninterpreted-function model of hash)", "equal objects have identical scores: follows from a == b => identical cleaned vectors (proved) and scores(x) == scores(reparse(clean(x))) (proved) - written argument"]
    C.finish(chk)


if __name__ == "__main__":
    main()
