"""C04: acceptance is exactly the grammar; error taxonomy; nothing foreign escapes."""
import sys

from . import common as C
from .common import Check


def main():
    chk = Check("C04")
    tasks = []
    for v in (2, 3, 4):
        tasks.append(("task_L4", (v,)))
        tasks.append(("task_L2", (v,)))
        tasks.append(("task_mandatory", (v,)))
    results = C.run_named_tasks("harness.parse_lemmas", tasks)
    for r in results:
        chk.absorb_dict(r)
    # the same two lemmas for ARBITRARY strings (solver string theory, no alphabet)
    ftasks = []
    for v in (2, 3, 4):
        ftasks.append(("task_L4F", (v,)))
        ftasks.append(("task_L2F", (v,)))
    for r in C.run_named_tasks("harness.freestr", ftasks):
        chk.absorb_dict(r)
    # L3 (no exception after acceptance) is established by C01/C02/C03 in M-ASSIGN (constructor
    # raises nothing on any grammatical vector); a light instance is re-run here
    results = C.run_named_tasks("harness.c04", [("task_L3", (v,)) for v in (2, 3, 4)])
    for r in results:
        chk.absorb_dict(r)
    chk.input_model = ("free-string lemmas L4F/L2F: the real loop body of parse_vector on ONE ARBITRARY '/'-free string from an arbitrary metric map, and the real code before the loop on ONE ARBITRARY string, "
                       "executed path by path over z3 string terms (pysymex/strsym.py), one z3 query per path; plus M-FIELDS, inductive use: the real loop body of parse_vector on one field slot (all legal literals + near-miss alphabet, exact CPython string semantics) from an ARBITRARY metric map; "
                       "the real code before the loop on head x up to 4 abstract chunks; check_mandatory from an arbitrary map; the rest of __init__ on every grammatical vector (M-ASSIGN, scores abstracted here, real in C01-C03)")
    chk.bounds = ["field alphabet: finite (legal literals + systematic near misses, listed in evidence); strings outside it are covered only through the written induction and the code's use of dict membership on the split parts",
                  "L2: heads from a finite near-miss list, at most 4 chunks after the head (the code before the loop does not look at individual chunks beyond emptiness of the string end)"]
    chk.bounds.append("free-string lemmas: no length bound, characters in z3's code point range U+0000-U+2FFFF; the finite alphabets remain as an independent second engine (CPython string semantics at the leaves)")
    chk.outside = ["non-str arguments", "code points above U+2FFFF in the free-string lemmas (covered by the finite alphabets only through look-alike samples)",
                   "parser code using constructs the string executor declines (int()/float() on the symbolic string, str.replace/join, whitespace split, regular-expression flags / nested groups): the free-string lemma is then inconclusive and only the finite alphabets decide"]
    chk.assumptions = ["str.split returns separator-free chunks whose join is the input (CPython contract)",
                       "composition over any number of fields: written induction with invariant 'metric map = map of the fields seen so far, all distinct' (DESIGN.md section 6 C04)"]
    C.finish(chk)


def task_L3(version):
    """every grammatical vector is constructed without any exception (scores abstracted: the real
    score computations are exercised exception-free in C01/C02/C03)"""
    from . import objects as O
    from .common import Session

    chk = Check("C04")
    sess = Session()
    vars_ = sess.assign_vars(version)
    mod = sess.load("cvss")
    C.set_epoch(1)
    sess.begin(mod)
    O.abstract_scores(sess, mod, version)
    sess._abs4 = True
    obj, vec, mod = O.make_object(sess, chk, version, vars_, "v%d L3" % version)
    chk.witnesses.append({"lemma": "v%d L3" % version, "vector": sess.vector_string(version, sess.m.pattern_assignment(0))})
    chk.absorb(sess)
    return chk.to_dict()


if __name__ == "__main__":
    main()
