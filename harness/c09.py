"""
C09: every reported score is a well-formed one-decimal float in [0, 10] (None only for undefined
v2 temporal/environmental), every severity rating is the official scale's rating of its score, and
severities(), CVSS4.severity and the JSON severity fields agree.
"""

import sys

from . import common as C
from . import objects as O
from .common import ABSENT, G, U, Check, Session, SymDict, SymList, unsat_or_cex
from .scores import split_tasks

EDGES = [0.0, 0.1, 3.9, 4.0, 6.9, 7.0, 8.9, 9.0, 10.0]
JSON_SEV_KEYS = {3: ["baseSeverity", "temporalSeverity", "environmentalSeverity"], 4: ["baseSeverity"]}


def task(version, fixed, label):
    chk = Check("C09")
    sess = Session()
    vars_ = sess.assign_vars(version, fixed=fixed)
    vc, m = sess.vc, sess.m

    def mk_replay(model, what):
        p = {"kind": "c09", "version": version, "vector": sess.vector_string(version, model), "what": what}
        if version == 4 and "score4" in model:
            p["abstract_score"] = model["score4"]
        return p

    obj, vec, mod = O.make_object(sess, chk, version, vars_, label)
    sc = O.items_of(O.call_ok(sess, chk, obj, "scores", label=label, mk_replay=mk_replay))
    sv = O.items_of(O.call_ok(sess, chk, obj, "severities", label=label, mk_replay=mk_replay))
    nslots = 3 if version in (2, 3) else 1
    if len(sc) != nslots or len(sv) != nslots:
        must = "scores()/severities() return %d items" % nslots
        chk.add_vc("%s: %s" % (label, must), "sat")
        chk.counterexamples.append({"vc": must, "replay": mk_replay(m.pattern_assignment(0), must)})
        chk.absorb(sess)
        return chk.to_dict()
    names = ["base", "temporal", "environmental"]
    reach = {}
    for i in range(nslots):
        s, r = sc[i], sv[i]
        # well-formedness of every reachable alternative
        for g, leaf in vc.alts(s):
            prob = O.score_wellformed_problem(leaf, allow_none=(version == 2 and i > 0))
            if prob is not None:
                O.must_not(sess, chk, g, "%s: %s score %s" % (label, names[i], prob), mk_replay)
        # rating of each reachable (score, rating) pair
        pairs = sess.lift(lambda a, b: (a, b), [s, r])
        for g, (a, b) in vc.alts(pairs):
            if O.score_wellformed_problem(a, True) is not None:
                continue
            want = O.severity_of(version, a)
            if b != want:
                O.must_not(sess, chk, g, "%s: %s score %r rated %r, official scale says %r" % (label, names[i], a, b, want), mk_replay)
        nalt = len(vc.alts(s))
        npair = len(vc.alts(pairs))
        chk.add_vc("%s: %s score: all %d reachable alternatives are well-formed and all %d reachable (score, rating) pairs lie on the official scale (offending alternatives, if any, are separate conditions)" % (label, names[i], nalt, npair), "unsat", 0, 0, trivial=True)
        chk.extra["score_alternatives_examined"] = chk.extra.get("score_alternatives_examined", 0) + nalt
        chk.extra["score_rating_pairs_examined"] = chk.extra.get("score_rating_pairs_examined", 0) + npair
        for e in EDGES:
            g = vc.guard_eq(s, e)
            if g is not m.FALSE and m.is_sat(g, "vacuity"):
                reach.setdefault(names[i], []).append(e)
    # agreement with the other places a rating is exposed
    if version == 4:
        sev_attr = sess.it.get_attr(obj, "severity", sess.top, vc.CT)
        O.must_hold(sess, chk, O.eq_cond(sess, sev_attr, sv[0]), "%s: CVSS4.severity == severities()[0]" % label, mk_replay)
    if version in (3, 4):
        for sort in (False, True):
            for minimal in (False, True):
                js = O.call_ok(sess, chk, obj, "as_json", kwargs={"sort": sort, "minimal": minimal}, label=label, mk_replay=mk_replay)
                if not isinstance(js, SymDict):
                    raise C.Unsupported("as_json() did not return a dict")
                for i, key in enumerate(JSON_SEV_KEYS[version]):
                    if key not in js.pres:
                        continue
                    pres = js.pres[key]
                    val = js.vals[key]
                    pr = sess.lift(lambda a, b: (a, b), [val, sv[i]])
                    for g, (a, b) in vc.alts(pr):
                        if not isinstance(a, str) or a.upper() != str(b).upper():
                            gg = m.AND(g, pres.l)
                            O.must_not(sess, chk, gg, "%s: as_json(sort=%s, minimal=%s)[%r] is %r but severities() says %r" % (label, sort, minimal, key, a, b), mk_replay)
    w = m.pattern_assignment(0)
    chk.witnesses.append({"task": label, "vector": sess.vector_string(version, w), "scores": [repr(sess.concretize(x, w)) for x in sc], "severities": [repr(sess.concretize(x, w)) for x in sv]})
    chk.extra["band_edges_reached_v%d" % version] = [[k, v] for k, v in reach.items()]
    chk.absorb(sess)
    return chk.to_dict()


def task_fork4(digits, d4=None):
    """a sampled fork (see _task_fork4): a fork the engine cannot finish within its memory cap is
    reported as a declined sample, not as an inconclusive check"""
    try:
        return _task_fork4(digits, d4)
    except MemoryError:
        why = "memory cap"
    except Exception as e:  # noqa: BLE001
        if "out of memory" not in repr(e):
            raise
        why = "solver out of memory"
    return {"extra": {"v4_real_scoring_forks_declined": 1, "v4_real_scoring_forks_declined_why": ["%s %r: %s" % ("".join(str(x) for x in digits), d4, why)]}}


def _task_fork4(digits, d4=None):
    """v4 with REAL scoring inside one macrovector fork (the case split of C02): the rating the
    constructor stores, severities() and the JSON field are the official scale's rating of the
    score the same constructor reports - for every assignment of the fork"""
    from . import score4

    chk = Check("C09")
    sess = Session(npat=512)
    vars_ = sess.assign_vars(4)
    m, vc = sess.m, sess.vc
    smod, d, e, items = score4.spec_macrovector(sess, vars_)
    g = score4.mv_guard(sess, items, digits)
    label = "v4 real scoring mv=" + "".join(str(x) for x in digits)
    if d4 is not None:
        du, raised = sess.call(smod.globals["distance"], [e, smod.globals["EQ4_MAX"][digits[3]], ["SC", "SI", "SA"]])
        if isinstance(d4, tuple):
            g2 = m.AND(g, m.NOT(m.or_all([vc.guard_eq(du, k) for k in d4[1]])))
        else:
            g2 = m.AND(g, vc.guard_eq(du, d4))
        if m.is_sat(g2, "vacuity") is not True:
            chk.absorb(sess)
            return chk.to_dict()
        g = g2
        label += "[d4=%s]" % (d4 if not isinstance(d4, tuple) else "rest")
    m.restrict(g, nsamples=128)
    vec = sess.vector_from_vars(4, vars_)
    mod = sess.load("cvss")
    C.set_epoch(1)
    cls = mod.globals["CVSS4"]

    def mk_replay(model, what):
        return {"kind": "c09", "version": 4, "vector": sess.vector_string(4, model), "what": what}

    obj, raised = sess.call(cls, [vec])
    for cond, exc in raised:
        nm = type(exc).__name__ if isinstance(exc, BaseException) else exc.cls.name
        O.must_not(sess, chk, vc.c_any(cond), "%s: constructor raises %s" % (label, nm), mk_replay)
    sc = O.items_of(O.call_ok(sess, chk, obj, "scores", label=label, mk_replay=mk_replay))
    sv = O.items_of(O.call_ok(sess, chk, obj, "severities", label=label, mk_replay=mk_replay))
    sev_attr = sess.it.get_attr(obj, "severity", sess.top, vc.CT)
    js = O.call_ok(sess, chk, obj, "as_json", kwargs={"sort": False, "minimal": False}, label=label, mk_replay=mk_replay)
    exposed = [("severities()[0]", sv[0]), ("CVSS4.severity", sev_attr)]
    if isinstance(js, SymDict) and "baseSeverity" in js.pres:
        exposed.append(("as_json()['baseSeverity']", js.vals["baseSeverity"]))
    npairs = 0
    for g_, leaf in vc.alts(sc[0]):
        prob = O.score_wellformed_problem(leaf, allow_none=False)
        if prob is not None:
            O.must_not(sess, chk, g_, "%s: score %s" % (label, prob), mk_replay)
    for name, val in exposed:
        pairs = sess.lift(lambda a, b: (a, b), [sc[0], val])
        for g_, (a, b) in vc.alts(pairs):
            npairs += 1
            if O.score_wellformed_problem(a, True) is not None:
                continue
            want = O.severity_of(4, a)
            if not isinstance(b, str) or b.upper() != want.upper():
                O.must_not(sess, chk, g_, "%s: score %r, %s is %r, official scale says %r" % (label, a, name, b, want), mk_replay)
    chk.add_vc("%s: all %d reachable (score, exposed rating) pairs lie on the official scale (offending ones are separate conditions)" % (label, npairs), "unsat", 0, 0, trivial=True)
    chk.extra["v4_real_scoring_forks"] = 1
    chk.extra["score_rating_pairs_examined"] = npairs
    chk.absorb(sess)
    return chk.to_dict()


def fork4_tasks(budget_quick=None, budget_thorough=None, seed_offset=9, limit_quick=None, limit_thorough=None):
    """the fork tasks of C02 (same case split): a seeded sample within a CPU budget (quick: 600
    estimated CPU seconds, thorough: 9,000)"""
    import json
    import os
    import random

    from spec import cvss4_spec as S4

    from . import score4

    _, feasible = score4.enumerate_macrovectors()
    tasks = []
    for d in feasible:
        if S4.EQ4_DEPTH[d[3]] * S4.EQ36_DEPTH[(d[2], d[5])] >= 35:
            ks = list(range(0, S4.EQ4_DEPTH[d[3]] + 3))
            for k in ks:
                tasks.append((d, k))
            tasks.append((d, ("rest", ks)))
        else:
            tasks.append((d,))
    total = len(tasks)
    try:
        costs = json.load(open(os.path.join(os.path.dirname(os.path.abspath(__file__)), "c02_costs.json")))
    except Exception:  # noqa: BLE001
        costs = {}
    rng = random.Random(C.seed() + seed_offset)
    order = list(tasks)
    rng.shuffle(order)
    # thorough tier: a much larger sample, still without the few fork tasks that need 10+ GB
    # and minutes each (C02's complete run schedules those specially; their ratings are covered
    # by the abstract-score run above)
    budget = float(os.environ.get("VERIF_C09_BUDGET_S", "600" if C.tier() == "quick" else "9000"))
    if budget_quick is not None:
        budget = float(budget_quick if C.tier() == "quick" else budget_thorough)
    limit = 20 if C.tier() == "quick" else 60
    if limit_quick is not None:
        limit = limit_quick if C.tier() == "quick" else limit_thorough
    picked, spent = [], 0.0
    for t in order:
        c = 0.6 * costs.get(score4.task_label(t), 4.0) + 2.0
        if c > limit or spent + c > budget:
            continue
        picked.append(t)
        spent += c
    return picked, total


def main():
    chk = Check("C09")
    tasks = []
    for version in (2, 3):
        for (v, fixed, label) in split_tasks(version):
            tasks.append((v, fixed, label))
    tasks.append((4, {}, "v4[score abstracted]"))
    results = C.run_tasks(task, tasks)
    for r in results:
        chk.absorb_dict(r)
    f4, f4total = fork4_tasks()
    for r in C.run_tasks(task_fork4, f4):
        chk.absorb_dict(r)
    nd = int(chk.extra.get("v4_real_scoring_forks_declined", 0))
    chk.extra["v4_real_scoring_fork_tasks"] = "%d of %d drawn, %d declined (memory)" % (len(f4), f4total, nd)
    if f4 and nd * 2 > len(f4):
        chk.inconclusive.append("v4 real scoring: %d of %d sampled forks exceeded the memory cap" % (nd, len(f4)))
    # summarise edge reachability
    for version in (2, 3, 4):
        key = "band_edges_reached_v%d" % version
        agg = {}
        for k, v in chk.extra.get(key, []):
            agg.setdefault(k, set()).update(v)
        chk.extra[key] = {k: sorted(v) for k, v in agg.items()}
    chk.input_model = "M-ASSIGN for v2 (27 sessions) and v3 (48 sessions), real constructors; v4: real parse/fill-in, base_score abstracted to an arbitrary one-decimal float in [0,10] (every band edge is then explored; the v4 score's own well-formedness is checked in every fork of C02)"
    chk.input_model += "; v4 additionally with REAL scoring inside macrovector forks (case split of C02: %d of %d fork tasks in this tier): the rating is compared with the score the same constructor reports" % (len(f4), f4total)
    chk.bounds = ["none on the metric domain for v2/v3 and for the v4 run with abstracted score; v4 with real scoring: the fork tasks listed above (seeded sample within a CPU budget: 600 estimated CPU seconds in the quick tier, 9,000 in the thorough tier; the few fork tasks needing 10+ GB are left out)"]
    chk.outside = ["v4: relation between metrics and score (C02)", "strings outside the grammar (C04)"]
    chk.stubs = ["CVSS4.compute_base_score replaced by 'base_score := arbitrary element of {0.0, 0.1, ..., 10.0}'"]
    chk.assumptions = ["official scales typed in harness/objects.py (FIRST v3.1 section 5 / v4.0 section 6; NVD v2 ranges)",
                       "pysymex interprets the Python subset faithfully; counterexamples are replayed on the real library"]
    C.finish(chk)


if __name__ == "__main__":
    main()
