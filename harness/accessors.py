"""
C15 (sub-vectors), C12 (Red Hat notation), C18 (purity / totality of accessors).
"""

import sys

from pysymex import structstr as SS
from pysymex.interp import NativeHandler

from . import common as C
from . import objects as O
from .common import ABSENT, G, U, Check, Cond, Opaque, Session, StructStr, SymDict, SymList, unsat_or_cex
from .scores import split_tasks

ND = {2: "ND", 3: "X", 4: "X"}


# -------------------------------------------------------------------------------------------------
# C15
# -------------------------------------------------------------------------------------------------


def expected_subvector_chunk(sess, version, vars_, met):
    """union of the text the sub-vector must show for metric met"""
    m, vc = sess.m, sess.vc
    var = vars_[met]
    pairs = []
    und = []
    for lab in var.domain:
        if lab is ABSENT or lab == ND[version]:
            und.append(m.atom(var, lab))
        else:
            pairs.append((m.atom(var, lab), met + ":" + lab))
    ug = m.or_all(und)
    if version == 3 and met.startswith("M"):
        base = vars_[met[1:]]
        for lab in base.domain:
            pairs.append((m.AND(ug, m.atom(base, lab)), met + ":" + lab))
    else:
        pairs.append((ug, met + ":" + ND[version]))
    return vc.mk_union(pairs, sweep=False)


def task_c15(version, fixed, label):
    chk = Check("C15")
    sess = Session()
    vars_ = sess.assign_vars(version, fixed=fixed)
    m, vc = sess.m, sess.vc
    g_ = G.GRAMMARS[version]

    def mk_replay(model, what):
        return {"kind": "c15", "version": version, "vector": sess.vector_string(version, model), "what": what}

    obj, vec, mod = O.make_object(sess, chk, version, vars_, label)
    subs = {}
    for acc, group in (("temporal_vector", g_["temporal"]), ("environmental_vector", g_["environmental"])):
        sv = O.call_ok(sess, chk, obj, acc, label=label, mk_replay=mk_replay)
        if not isinstance(sv, StructStr):
            raise C.Unsupported("%s() returned %r" % (acc, sv))
        chunks = [c for c in sv.chunks if m.find(c[0]) is not m.FALSE]
        subs[acc] = chunks
        if len(chunks) != len(group):
            O.must_not(sess, chk, m.TRUE, "%s: %s() lists %d fields, the group has %d metrics" % (label, acc, len(chunks), len(group)), mk_replay)
            continue
        for (g, s), met in zip(chunks, group):
            O.must_hold(sess, chk, g, "%s: %s() always lists %s" % (label, acc, met), mk_replay)
            want = expected_subvector_chunk(sess, version, vars_, met)
            O.must_hold(sess, chk, O.eq_cond(sess, s, want), "%s: %s() shows %s with its written value, or ND/X/base value" % (label, acc, met), mk_replay)
    # base metrics + temporal + environmental re-assembled: same scores
    chunks = []
    if version == 3:
        chunks.append((m.TRUE, vc.from_var(vars_["minor"], lambda lab: "CVSS:3." + lab)))
    for met in g_["mandatory"]:
        chunks.append((m.TRUE, vc.from_var(vars_[met], lambda lab, met=met: met + ":" + lab)))
    chunks += subs.get("temporal_vector", []) + subs.get("environmental_vector", [])
    vec2 = StructStr("/", chunks)
    cls = mod.globals["CVSS%d" % version]
    obj2, raised = sess.call(cls, [vec2])
    for cond, exc in raised:
        nm = type(exc).__name__ if isinstance(exc, BaseException) else exc.cls.name
        O.must_not(sess, chk, vc.c_any(cond), "%s: the re-assembled vector is rejected (%s)" % (label, nm), mk_replay)
    s1 = O.items_of(O.call_ok(sess, chk, obj, "scores", label=label, mk_replay=mk_replay))
    s2 = O.items_of(O.call_ok(sess, chk, obj2, "scores", label=label, mk_replay=mk_replay))
    names = ["base", "temporal", "environmental"]
    for i, (a, b) in enumerate(zip(s1, s2)):
        if version == 2 and i > 0:
            # the re-assembled vector spells the group out as ND: an undefined (None) score stays
            # undefined; a defined one keeps its value
            O.must_hold(sess, chk, O.eq_cond(sess, a, b), "%s: %s score of base+temporal+environmental sub-vectors is the same" % (label, names[i]), mk_replay)
        else:
            O.must_hold(sess, chk, O.eq_cond(sess, a, b), "%s: %s score of base+temporal+environmental sub-vectors is the same" % (label, names[i]), mk_replay)
    chk.witnesses.append({"task": label, "vector": sess.vector_string(version, m.pattern_assignment(0)), "temporal_vector": sess.concretize(StructStr("/", subs.get("temporal_vector", [])), m.pattern_assignment(0))})
    chk.absorb(sess)
    return chk.to_dict()


def main_c15():
    chk = Check("C15")
    tasks = []
    for version in (2, 3):
        for t in split_tasks(version):
            tasks.append(("task_c15", t))
    for r in C.run_named_tasks("harness.accessors", tasks):
        chk.absorb_dict(r)
    chk.input_model = "M-ASSIGN, v2 (27 sessions) and v3 (48 sessions), real constructors with real scoring; the re-assembled vector is re-parsed and re-scored by the real constructor"
    chk.bounds = ["none on the metric domain"]
    chk.outside = ["non-canonical field order of the input (C05)"]
    chk.assumptions = ["specification order of the groups typed in /verif/spec/grammar.py"]
    C.finish(chk)


# -------------------------------------------------------------------------------------------------
# C12
# -------------------------------------------------------------------------------------------------

SCORE_TEXTS = ["%d.%d" % (k // 10, k % 10) for k in range(0, 101)]
ODD_SCORE_TEXTS = ["", " ", "abc", "7,5", "7.5.1", "--1", "0x10", "1e1", "1E1", "10", "10.", "10.00", "07.5", "7.50", "+7.5", "-0.0", "-7.5", "nan", "NaN", "inf", "-inf", "Infinity",
                   " 7.5", "7.5 ", "7.5\n", "７.５", "7_5", "1_0.0", "7.4999999999999999", "7.500000000000001", "7.49", "7.51", "9.99", "0.05", "None", "7.5/", "1e400", "4.0", "4", ".5", "5."]


# score texts defined relative to the object's base score b (exact decimal arithmetic, then printed):
# numbers that differ from b by less than the printing resolution - the region where a tolerant or
# rounding comparison differs from "the number equals the computed base score"
REL_SCORE_TEXTS = [("rel", d) for d in ("0.04", "-0.04", "0.05", "-0.05", "0.049", "-0.049", "0.0499999", "-0.0499999", "0.051", "-0.051", "0.01", "-0.01", "0.001", "-0.001",
                                        "0.0000001", "-0.0000001", "0.000000000001", "-0.000000000001", "0.1", "-0.1", "1", "-1", "0.0", "0.00")]


def resolve_score_text(entry, base):
    """text of an alphabet entry for an object whose base score is `base`"""
    if isinstance(entry, str):
        return entry
    from decimal import Decimal

    d = entry[1]
    b = Decimal(repr(float(base)))
    if d in ("0.0", "0.00"):
        return str(b) + d[2:]  # the same number printed with more decimals: 7.5 -> 7.50 / 7.500
    return str(b + Decimal(d))


def install_shared_v4_score(sess, mod):
    """v4 only: every CVSS4 object built in this session gets the SAME arbitrary score variable.
    Sound for round-trip lemmas in which all objects have the same metric map (the score is a
    function of the metric map: C02's model)."""
    cls = mod.globals["CVSS4"]
    var = sess.m.new_var("score4", O.SCORES101)
    val = sess.vc.from_var(var)

    def stub(it, args, kwargs, pc):
        it.set_attr(args[0], "base_score", val, pc)
        return None

    cls.ns["compute_base_score"] = NativeHandler(stub, "compute_base_score[shared arbitrary score]")
    sess._abs4 = True


def install_shared_score(sess, mod, version):
    """every object built in this session gets the SAME arbitrary scores (sound where all objects
    of the session have the same metric map: the scores are functions of the metric map)"""
    if version == 4:
        install_shared_v4_score(sess, mod)
        return
    from decimal import Decimal

    cls = mod.globals["CVSS%d" % version]
    decs = [Decimal(k) / Decimal(10) for k in range(0, 101)]

    def mk(attr, allow_none):
        var = sess.m.new_var("shared." + attr, decs + ([None] if allow_none else []))
        val = sess.vc.from_var(var)

        def stub(it, args, kwargs, pc):
            it.set_attr(args[0], attr, val, pc)
            return None

        return NativeHandler(stub, attr + "[shared arbitrary score]")

    cls.ns["compute_base_score"] = mk("base_score", False)
    cls.ns["compute_temporal_score"] = mk("temporal_score", version == 2)
    cls.ns["compute_environmental_score"] = mk("environmental_score", version == 2)


def task_c12(version, fixed, label, part="shape+roundtrip"):
    chk = Check("C12")
    sess = Session()
    vars_ = sess.assign_vars(version, fixed=fixed)
    m, vc = sess.m, sess.vc
    mod = sess.load("cvss")
    C.set_epoch(1)
    sess.begin(mod)
    if version == 4 or part == "acceptance":
        install_shared_score(sess, mod, version)
        sess._abs4 = True

    def mk_replay(model, what):
        p = {"kind": "c12", "version": version, "vector": sess.vector_string(version, model), "what": what}
        if "scoretext" in model:
            e = (SCORE_TEXTS + ODD_SCORE_TEXTS + REL_SCORE_TEXTS)[model["scoretext"]]
            if isinstance(e, str):
                p["score_text"] = e
            else:
                p["score_text_rel"] = e[1]  # resolved by the replay against the vector's real base score
        # acceptance lemma / v4: the base score is an abstract shared value; the replay looks for a
        # real vector with that base score (the model's vector has whatever score it really has)
        for k in ("shared.base_score", "score4"):
            if k in model and model[k] is not None:
                p["abstract_base"] = float(model[k])
                p["alphabet"] = SCORE_TEXTS + ODD_SCORE_TEXTS
        return p

    obj, vec, mod = O.make_object(sess, chk, version, vars_, label)
    cls = mod.globals["CVSS%d" % version]
    X = sess.load("cvss.exceptions")
    rh = O.call_ok(sess, chk, obj, "rh_vector", label=label, mk_replay=mk_replay)
    clean = O.call_ok(sess, chk, obj, "clean_vector", label=label, mk_replay=mk_replay)
    base = O.items_of(O.call_ok(sess, chk, obj, "scores", label=label, mk_replay=mk_replay))[0]
    if not isinstance(rh, StructStr):
        raise C.Unsupported("rh_vector() returned %r" % (rh,))
    chunks = [c for c in rh.chunks if m.find(c[0]) is not m.FALSE]
    # (1) shape: one-decimal base score, '/', cleaned vector
    g0, s0 = chunks[0]
    O.must_hold(sess, chk, g0, "%s: rh_vector() starts with the score" % label, mk_replay)
    pr = sess.lift(lambda t, f: (t, f), [s0, base])
    for g, (t, f) in vc.alts(pr):
        ok = isinstance(f, float) and O.score_wellformed_problem(f, False) is None and t == "%.1f" % f and t == repr(f)
        if not ok:
            O.must_not(sess, chk, g, "%s: rh_vector() prints score %r as %r (must be the base score with one decimal)" % (label, f, t), mk_replay)
    rest = StructStr(rh.sep, chunks[1:])
    O.must_hold(sess, chk, O.eq_cond(sess, rest, clean), "%s: rh_vector() is score + '/' + clean_vector()" % label, mk_replay)
    if part == "acceptance":
        return c12_acceptance(sess, chk, version, label, obj, cls, X, clean, base, mk_replay)
    # (2) round trip
    back, raised = sess.call_method(cls, "from_rh_vector", [rh])
    for cond, exc in raised:
        nm = type(exc).__name__ if isinstance(exc, BaseException) else exc.cls.name
        O.must_not(sess, chk, vc.c_any(cond), "%s: from_rh_vector(x.rh_vector()) raises %s" % (label, nm), mk_replay)
    O.must_hold(sess, chk, O.eq_cond(sess, back, obj), "%s: from_rh_vector(x.rh_vector()) == x" % label, mk_replay)
    chk.witnesses.append({"task": label, "rh_vector": sess.concretize(rh, m.pattern_assignment(0))})
    chk.absorb(sess)
    return chk.to_dict()


def c12_acceptance(sess, chk, version, label, obj, cls, X, clean, base, mk_replay):
    # (3) acceptance: arbitrary score text in front of a valid vector
    m, vc = sess.m, sess.vc
    texts = SCORE_TEXTS + ODD_SCORE_TEXTS + REL_SCORE_TEXTS
    tv = m.new_var("scoretext", list(range(len(texts))))
    t = sess.lift(lambda i, b: resolve_score_text(texts[i], b), [vc.from_var(tv), base])
    inp = StructStr("/", [(m.TRUE, t)] + [c for c in clean.chunks])
    res, raised = sess.call_method(cls, "from_rh_vector", [inp])
    n = "CVSS%d" % version
    mal = X.globals[n + "RHMalformedError"]
    mis = X.globals[n + "RHScoreDoesNotMatch"]
    r_mal = vc.CF
    r_mis = vc.CF
    for cond, exc in raised:
        if isinstance(exc, O.C.Obj) and exc.cls is mal:
            r_mal = vc.c_or(r_mal, cond)
        elif isinstance(exc, O.C.Obj) and exc.cls is mis:
            r_mis = vc.c_or(r_mis, cond)
        else:
            nm = type(exc).__name__ if isinstance(exc, BaseException) else exc.cls.name
            O.must_not(sess, chk, vc.c_any(cond), "%s: from_rh_vector(<text>/<valid vector>) raises %s" % (label, nm), mk_replay)
    # oracle on the leaves: does the text parse as a number, and is that number the base score
    def parses(s):
        try:
            float(s)
            return True
        except ValueError:
            return False

    num = vc.cond_of(sess.lift(parses, [t])).l
    same = vc.cond_of(sess.lift(lambda s, f: parses(s) and float(s) == f, [t, base])).l
    O.must_not(sess, chk, m.XOR(r_mal.l, m.NOT(num)), "%s: RH-malformed error exactly when the score part is not a number" % label, mk_replay)
    O.must_not(sess, chk, m.XOR(r_mis.l, m.AND(num, m.NOT(same))), "%s: score-mismatch error exactly when the number differs from the base score" % label, mk_replay)
    acc = m.AND(m.NOT(r_mal.l), m.NOT(r_mis.l))
    O.must_not(sess, chk, m.AND(acc, m.NOT(O.eq_cond(sess, res, obj).l)), "%s: an accepted RH vector yields the vector's object" % label, mk_replay)
    chk.absorb(sess)
    return chk.to_dict()


def task_c12_shape(version):
    """no '/' at all, and invalid vector parts (concrete probes through the symbolic engine)"""
    chk = Check("C12")
    sess = Session()
    m, vc = sess.m, sess.vc
    mod = sess.load("cvss")
    C.set_epoch(1)
    sess.begin(mod)
    O.abstract_scores(sess, mod, version)
    sess._abs4 = True
    cls = mod.globals["CVSS%d" % version]
    X = sess.load("cvss.exceptions")
    n = "CVSS%d" % version
    label = "v%d RH shape" % version
    texts = SCORE_TEXTS[:3] + ODD_SCORE_TEXTS + ["AV:N", "CVSS:3.1", "CVSS:4.0"]
    tv = m.new_var("text", list(range(len(texts))))
    t = vc.from_var(tv, lambda i: texts[i])
    inp = StructStr("/", [(m.TRUE, t)])

    def mk_replay(model, what):
        return {"kind": "c12_raw", "version": version, "text": texts[model["text"]], "what": what}

    res, raised = sess.call_method(cls, "from_rh_vector", [inp])
    rc = vc.CF
    for cond, exc in raised:
        rc = vc.c_or(rc, cond)
        if not (isinstance(exc, C.Obj) and exc.cls is X.globals[n + "RHMalformedError"]):
            nm = type(exc).__name__ if isinstance(exc, BaseException) else exc.cls.name
            O.must_not(sess, chk, vc.c_any(cond), "%s: text without '/' raises %s" % (label, nm), mk_replay)
    O.must_hold(sess, chk, rc, "%s: text without '/' always raises the RH-malformed error" % label, mk_replay)
    chk.absorb(sess)
    return chk.to_dict()


def main_c12():
    chk = Check("C12")
    tasks = []
    for version in (2, 3):
        for t in split_tasks(version):
            tasks.append(("task_c12", t))
    tasks.append(("task_c12", (4, {}, "v4[shared arbitrary score]")))
    for v in (2, 3, 4):
        tasks.append(("task_c12", (v, {}, "v%d acceptance[shared arbitrary scores]" % v, "acceptance")))
        tasks.append(("task_c12_shape", (v,)))
    for r in C.run_named_tasks("harness.accessors", tasks):
        chk.absorb_dict(r)
    chk.input_model = ("M-ASSIGN with real scoring (v2 27, v3 48 sessions; v4 with one shared arbitrary score), real from_rh_vector executed on the structured string; the score part ranges over "
                       "the 101 canonical score texts plus %d odd texts plus %d texts defined relative to the object's base score (base +- 0.04, 0.05, 0.049, ... 1e-12, the same number with more decimals); float() runs for real at the leaves" % (len(ODD_SCORE_TEXTS), len(REL_SCORE_TEXTS)))
    chk.bounds = ["score-part alphabet is finite (listed above); float()'s own parsing is CPython's", "vector part: valid vectors (M-ASSIGN); invalid vector parts raise the ordinary vector errors by C04 (the constructor is called unchanged)"]
    chk.stubs = ["v4, and the acceptance lemma of every version: compute_*_score := shared arbitrary one-decimal scores (all objects in such a session have the same metric map; shape and round trip of v2/v3 use real scoring)"]
    chk.assumptions = ["str(float) of a one-decimal float prints one decimal (checked at the leaves for all 101 values)"]
    C.finish(chk)


# -------------------------------------------------------------------------------------------------
# C18
# -------------------------------------------------------------------------------------------------

ACCESSORS = {
    2: [("scores", {}), ("severities", {}), ("clean_vector", {}), ("rh_vector", {}), ("temporal_vector", {}), ("environmental_vector", {})],
    3: [("scores", {}), ("severities", {}), ("clean_vector", {}), ("clean_vector", {"output_prefix": False}), ("rh_vector", {}), ("temporal_vector", {}), ("environmental_vector", {})],
    4: [("scores", {}), ("severities", {}), ("clean_vector", {}), ("clean_vector", {"output_prefix": False}), ("rh_vector", {})],
}


def reachable_heap(obj):
    """ids of mutable heap objects reachable from the object's attributes"""
    seen = {}
    stack = [obj]
    while stack:
        x = stack.pop()
        if id(x) in seen:
            continue
        if isinstance(x, C.Obj):
            seen[id(x)] = x
            stack.extend(x.attrs.values())
        elif isinstance(x, SymDict):
            seen[id(x)] = x
            stack.extend(x.vals.values())
        elif isinstance(x, SymList):
            seen[id(x)] = x
            stack.extend(e for _, e in x.elems)
        elif isinstance(x, U):
            stack.extend(l for _, l in x.alts)
        elif isinstance(x, (list, dict, set)):
            seen[id(x)] = x
    return seen


def task_c18(version):
    chk = Check("C18")
    sess = Session()
    vars_ = sess.assign_vars(version)
    m, vc = sess.m, sess.vc
    label = "v%d" % version
    mod = sess.load("cvss")
    C.set_epoch(1)
    sess.begin(mod)
    O.abstract_scores(sess, mod, version)
    sess._abs4 = True

    def mk_replay(model, what):
        return {"kind": "c18", "version": version, "vector": sess.vector_string(version, model), "what": what}

    obj, vec, mod = O.make_object(sess, chk, version, vars_, label)
    calls = list(ACCESSORS[version])
    for sort in (False, True):
        for minimal in (False, True):
            calls.append(("as_json", {"sort": sort, "minimal": minimal}))
    calls.append(("__hash__", {}))
    heap_before = reachable_heap(obj)
    C.set_epoch(2)
    sess.it.effects = []
    n_calls = 0
    for name, kw in calls:
        nm = "%s(%s)" % (name, ", ".join("%s=%r" % kv for kv in kw.items()))
        if m.verbose:
            import time as _t
            sys.stderr.write("[c18 %s %s nodes=%d t=%.1f]\n" % (label, nm, len(m.nodes), _t.time() - sess.t0))
        r1 = O.call_ok(sess, chk, obj, name, kwargs=kw, label=label, mk_replay=mk_replay)
        r2 = O.call_ok(sess, chk, obj, name, kwargs=kw, label=label, mk_replay=mk_replay)
        n_calls += 2
        # (iii) the result shares no mutable object with self / modules
        for rid, ro in reachable_heap(r1).items() if isinstance(r1, (SymDict, SymList, C.Obj)) else []:
            if rid in heap_before:
                O.must_not(sess, chk, m.TRUE, "%s: %s returns an object that is part of the instance state (aliasing)" % (label, nm), mk_replay)
        # equal results when called again
        if isinstance(r1, SymDict):
            O.must_hold(sess, chk, O.eq_cond(sess, r1, r2), "%s: %s returns equal results when called twice" % (label, nm), mk_replay)
            if r1 is r2:
                O.must_not(sess, chk, m.TRUE, "%s: %s returns the same dict object twice" % (label, nm), mk_replay)
        elif isinstance(r1, SymList):
            for i, (a, b) in enumerate(zip(O.items_of(r1), O.items_of(r2))):
                O.must_hold(sess, chk, O.eq_cond(sess, a, b), "%s: %s[%d] equal when called twice" % (label, nm, i), mk_replay)
        else:
            O.must_hold(sess, chk, O.eq_cond(sess, r1, r2), "%s: %s returns equal results when called twice" % (label, nm), mk_replay)
    # == against itself and against another object
    O.must_hold(sess, chk, O.eq_cond(sess, obj, obj), "%s: x == x does not raise and holds" % label, mk_replay)
    # (ii) frame condition: no store into anything that existed before the accessor calls
    nstores = 0
    for kind, target, key, pc, epoch in sess.it.effects:
        if epoch != 2:
            continue
        nstores += 1
        tname = type(target).__name__
        if isinstance(target, C.Obj):
            tname = "%s instance attribute %r" % (target.cls.name, key)
        elif hasattr(target, "name"):
            tname = "%s %r" % (tname, getattr(target, "name", ""))
        g = vc.c_any(pc)
        O.must_not(sess, chk, g, "%s: an accessor performs a %s on %s (state that existed before the call)" % (label, kind, tname), mk_replay)
    chk.extra["accessor_calls_executed_v%d" % version] = n_calls
    chk.extra["stores_into_older_objects_logged_v%d" % version] = nstores
    chk.witnesses.append({"task": label, "vector": sess.vector_string(version, m.pattern_assignment(0)), "accessors": [c[0] for c in calls]})
    chk.absorb(sess)
    return chk.to_dict()


def main_c18():
    chk = Check("C18")
    for r in C.run_named_tasks("harness.accessors", [("task_c18", (v,)) for v in (2, 3, 4)]):
        chk.absorb_dict(r)
    chk.input_model = "M-ASSIGN, every accessor executed twice symbolically on an arbitrary constructed object (scores abstracted to arbitrary values: accessors only read them)"
    chk.bounds = ["one inductive step from an arbitrary constructed state: every accessor (i) raises nothing, (ii) stores into no object that existed before the call (effect log over all paths), (iii) returns a fresh or immutable value; any finite sequence of calls then leaves the state and hence every later result unchanged (written induction)"]
    chk.stubs = ["compute_*_score replaced by arbitrary scores"]
    chk.assumptions = ["immutability of str / float / tuple results (CPython)", "mutating a returned dict cannot reach the instance because no returned container is reachable from the instance (alias check on the interpreter heap)"]
    C.finish(chk)
