"""
C08 (emitted vector strings are valid), C10 (as_json validates against the official schema),
C11 (as_json is faithful; sort / minimal only reorder / omit).
"""

import sys

from pysymex import structstr as SS
from spec import json_names as JN

from . import common as C
from . import objects as O
from . import symjson as SJ
from .common import ABSENT, G, U, Check, Cond, Opaque, Session, StructStr, SymDict, SymList, unsat_or_cex

ND = {2: "ND", 3: "X", 4: "X"}


def schema_versions(version):
    return {2: ["2.0"], 3: ["3.0", "3.1"], 4: ["4.0"]}[version]


def version_guard(sess, version, vars_, sv):
    m = sess.m
    if version == 3:
        return m.atom_opt(vars_["minor"], sv[-1])
    return m.TRUE


def pattern_accepts(sess, version, vars_, ss):
    """guard: ss matches the official vectorString pattern of its own (minor) version"""
    m = sess.m
    g = m.FALSE
    for sv in schema_versions(version):
        pat = SJ.load_schema(sv)["properties"]["vectorString"]["pattern"]
        g = m.OR(g, m.AND(version_guard(sess, version, vars_, sv), SJ.regex_accepts(sess, pat, ss)))
    return g


def setup(version, label, swap=False, fixed=None, real=False):
    chk = Check("x")
    sess = Session()
    vars_ = sess.assign_vars(version, fixed=fixed)
    mod = sess.load("cvss")
    C.set_epoch(1)
    sess.begin(mod)
    if not real:
        O.abstract_scores(sess, mod, version)
        sess._abs4 = True
    vec = None
    if swap:
        vec = swapped_vector(sess, version, vars_)
    obj, vec, mod = O.make_object(sess, chk, version, vars_, label, vec=vec)
    return chk, sess, vars_, obj, vec, mod


def swapped_vector(sess, version, vars_):
    """canonical-order vector with at most one adjacent transposition of two fields (selected by
    a fresh variable): the smallest family of non-canonical input orders"""
    m, vc = sess.m, sess.vc
    base = sess.vector_from_vars(version, vars_)
    chunks = list(base.chunks)
    start = 0 if version == 2 else 1
    n = len(chunks) - start
    sw = m.new_var("swap", ["none"] + list(range(n - 1)))
    sess.swapvar = sw
    out = chunks[:start]
    for j in range(n):
        pres, val = chunks[start + j]
        # field j is written at its own place unless it is swapped with its successor; after
        # field j+1 when swap == j
        here = m.AND(pres, m.NOT(m.atom_opt(sw, j)))
        out.append((here, val))
        if j >= 1:
            ppres, pval = chunks[start + j - 1]
            out.append((m.AND(ppres, m.atom_opt(sw, j - 1)), pval))
    return StructStr("/", out)


def concrete_input(sess, version, model, vec):
    return sess.concretize(vec, model)


# -------------------------------------------------------------------------------------------------
# C08
# -------------------------------------------------------------------------------------------------


def task_c08(version):
    label = "v%d" % version
    chk, sess, vars_, obj, vec, mod = setup(version, label)
    chk.pid = "C08"
    m, vc = sess.m, sess.vc

    def mk_replay(model, what):
        return {"kind": "c08", "version": version, "vector": sess.vector_string(version, model), "what": what}

    clean = O.call_ok(sess, chk, obj, "clean_vector", label=label, mk_replay=mk_replay)
    rh = O.call_ok(sess, chk, obj, "rh_vector", label=label, mk_replay=mk_replay)
    cls = mod.globals["CVSS%d" % version]
    for nm, ss in (("clean_vector()", clean), ("vector part of rh_vector()", StructStr(rh.sep, [c for c in rh.chunks][1:]) if isinstance(rh, StructStr) else None)):
        if not isinstance(ss, StructStr):
            raise C.Unsupported("%s is %r" % (nm, ss))
        o2, raised = sess.call(cls, [ss])
        for cond, exc in raised:
            en = type(exc).__name__ if isinstance(exc, BaseException) else exc.cls.name
            O.must_not(sess, chk, vc.c_any(cond), "%s: the library's own parser rejects %s (%s)" % (label, nm, en), mk_replay)
        acc = pattern_accepts(sess, version, vars_, ss)

        def mk_r(model, what, nm=nm):
            r = mk_replay(model, what)
            r["finding_key"] = "v%d.%s.official-pattern" % (version, "clean_vector" if nm.startswith("clean") else "rh_vector")
            return r

        O.must_not(sess, chk, m.NOT(acc), "%s: %s conforms to the official vectorString pattern" % (label, nm), mk_r)
    chk.witnesses.append({"task": label, "clean_vector": sess.concretize(clean, m.pattern_assignment(0))})
    chk.absorb(sess)
    return chk.to_dict()


# -------------------------------------------------------------------------------------------------
# C10
# -------------------------------------------------------------------------------------------------


def task_c10(version, swap):
    label = "v%d%s" % (version, " one adjacent transposition of the input fields" if swap else "")
    chk, sess, vars_, obj, vec, mod = setup(version, label, swap=swap)
    chk.pid = "C10"
    m, vc = sess.m, sess.vc
    known = [k for k in C.load_known() if k.get("property") == "C10" and k.get("status") == "known"]

    def mk_replay_f(sort, minimal, key):
        def f(model, what):
            p = {"kind": "c10", "version": version, "vector": concrete_input(sess, version, model, vec), "sort": sort, "minimal": minimal, "part": key, "what": what, "finding_key": key}
            if "score4" in model:
                p["abstract_score"] = model["score4"]
            return p

        return f

    for sort in (False, True):
        for minimal in (False, True):
            opt = "as_json(sort=%s, minimal=%s)" % (sort, minimal)
            js = O.call_ok(sess, chk, obj, "as_json", kwargs={"sort": sort, "minimal": minimal}, label=label, mk_replay=mk_replay_f(sort, minimal, "raises"))
            if not isinstance(js, SymDict):
                raise C.Unsupported("as_json() returned %r" % (js,))
            for sv in schema_versions(version):
                vg = version_guard(sess, version, vars_, sv)
                schema = SJ.load_schema(sv)
                val = SJ.Validator(sess, schema)
                pre = "v%s.as_json" % sv
                # required keys
                for key in schema.get("required", []):
                    p = js.pres.get(key)
                    O.must_not(sess, chk, m.AND(vg, m.NOT(p.l if p is not None else m.FALSE)), "%s %s: required key %r present" % (label, opt, key), mk_replay_f(sort, minimal, "%s.%s.missing" % (pre, key)))
                # per property, per offending value
                for key, sub in schema.get("properties", {}).items():
                    if key not in js.pres:
                        continue
                    p = m.AND(vg, js.pres[key].l)
                    v = js.vals[key]
                    if isinstance(v, StructStr):
                        ok = val.value_valid(sub, v)
                        fk = "%s.%s.pattern%s" % (pre, key, ".noncanonical-input-order" if swap else "")
                        O.must_not(sess, chk, m.AND(p, m.NOT(ok)), "%s %s: %s matches the schema pattern" % (label, opt, key), mk_replay_f(sort, minimal, fk))
                        continue
                    for g, leaf in vc.alts(v):
                        try:
                            okl = val.leaf_valid(sub, leaf)
                        except C.Unsupported:
                            raise
                        if not okl:
                            O.must_not(sess, chk, m.AND(p, g), "%s %s: %s = %r is valid for the schema" % (label, opt, key, leaf), mk_replay_f(sort, minimal, "%s.%s=%s" % (pre, key, leaf)))
                # combinators
                for comb in ("allOf", "anyOf"):
                    for i, sub in enumerate(schema.get(comb, []) if comb == "allOf" else ([schema["anyOf"]] if "anyOf" in schema else [])):
                        fk = "%s.%s[%d]" % (pre, comb, i)
                        repaired = js
                        for k in known:
                            rp = k.get("repair")
                            if rp and k.get("key", "").startswith(fk) and rp.get("field") in js.pres:
                                repaired = SymDict()
                                repaired.keys = list(js.keys)
                                repaired.pres = dict(js.pres)
                                repaired.vals = dict(js.vals)
                                if rp.get("op") == "upper":
                                    repaired.vals[rp["field"]] = sess.lift(lambda s: s.upper() if isinstance(s, str) else s, [js.vals[rp["field"]]])
                        ok = val.object_valid(sub if comb == "allOf" else {"anyOf": sub}, js)
                        O.must_not(sess, chk, m.AND(vg, m.NOT(ok)), "%s %s: %s[%d] holds" % (label, opt, comb, i), mk_replay_f(sort, minimal, fk + ".case" if repaired is not js else fk))
                        if repaired is not js:
                            ok2 = val.object_valid(sub if comb == "allOf" else {"anyOf": sub}, repaired)
                            O.must_not(sess, chk, m.AND(vg, m.NOT(ok2)), "%s %s: %s[%d] holds once the known finding is set aside" % (label, opt, comb, i), mk_replay_f(sort, minimal, fk))
                for k in schema:
                    if k not in SJ.IGNORED and k not in ("type", "required", "properties", "allOf", "anyOf", "additionalProperties"):
                        raise C.Unsupported("schema keyword %r" % k)
                if schema.get("additionalProperties") is False:
                    for key in js.keys:
                        if key not in schema.get("properties", {}):
                            O.must_not(sess, chk, m.AND(vg, js.pres[key].l), "%s %s: no additional property %r" % (label, opt, key), mk_replay_f(sort, minimal, "%s.additional.%s" % (pre, key)))
    chk.witnesses.append({"task": label, "vector": concrete_input(sess, version, m.pattern_assignment(0), vec)})
    chk.absorb(sess)
    return chk.to_dict()


# -------------------------------------------------------------------------------------------------
# C11
# -------------------------------------------------------------------------------------------------


def effective_name_guard(sess, version, vars_, met, names_by_value):
    """{name -> guard}: the acceptable names for the effective value of met"""
    m = sess.m
    var = vars_[met]
    out = {}

    def add(name, g):
        out[name] = m.OR(out[name], g) if name in out else g

    und = m.or_all([m.atom(var, lab) for lab in var.domain if lab is ABSENT or lab == ND[version]])
    for lab in var.domain:
        if lab is ABSENT or lab == ND[version]:
            continue
        for nm in names_by_value[lab]:
            add(nm, m.atom(var, lab))
    if und is not m.FALSE:
        is_mod = met.startswith("M") and met[1:] in vars_ and version in (3, 4)
        if is_mod:
            base = vars_[met[1:]]
            for lab in base.domain:
                for nm in names_by_value.get(lab, []):
                    add(nm, m.AND(und, m.atom(base, lab)))
        else:
            add(JN.ND, und)
    return out


def task_c11(version, fixed=None, label=None):
    label = label or "v%d" % version
    # v2 decides group inclusion from the *scores*: real scoring is needed there
    chk, sess, vars_, obj, vec, mod = setup(version, label, fixed=fixed, real=(version == 2))
    chk.pid = "C11"
    m, vc = sess.m, sess.vc
    g_ = G.GRAMMARS[version]
    table = JN.TABLES[version]

    def mk_replay_f(sort, minimal):
        def f(model, what):
            p = {"kind": "c11", "version": version, "vector": sess.vector_string(version, model), "sort": sort, "minimal": minimal, "what": what}
            return p

        return f

    sc = O.items_of(O.call_ok(sess, chk, obj, "scores", label=label))
    sv = O.items_of(O.call_ok(sess, chk, obj, "severities", label=label))
    results = {}
    for sort in (False, True):
        for minimal in (False, True):
            mk = mk_replay_f(sort, minimal)
            opt = "as_json(sort=%s, minimal=%s)" % (sort, minimal)
            js = O.call_ok(sess, chk, obj, "as_json", kwargs={"sort": sort, "minimal": minimal}, label=label, mk_replay=mk)
            if not isinstance(js, SymDict):
                raise C.Unsupported("as_json() returned %r" % (js,))
            results[(sort, minimal)] = js
            # version / vectorString
            if "version" in js.pres:
                for g, leaf in vc.alts(js.vals["version"]):
                    if version == 3:
                        okg = m.or_all([m.atom(vars_["minor"], lab) for lab in vars_["minor"].domain if leaf == "3." + lab])
                    else:
                        okg = m.TRUE if leaf in JN.VERSION_FIELD[version] else m.FALSE
                    O.must_not(sess, chk, m.AND(m.AND(js.pres["version"].l, g), m.NOT(okg)), "%s %s: version field %r identifies the input's version" % (label, opt, leaf), mk)
            O.must_hold(sess, chk, js.pres.get("version", vc.CF), "%s %s: version field present" % (label, opt), mk)
            O.must_hold(sess, chk, js.pres.get("vectorString", vc.CF), "%s %s: vectorString present" % (label, opt), mk)
            if "vectorString" in js.pres:
                O.must_hold(sess, chk, O.eq_cond(sess, js.vals["vectorString"], vec), "%s %s: vectorString is the string supplied" % (label, opt), mk)
            # scores / severities
            for i, (skey, vkey_) in enumerate(JN.SCORE_KEYS[version]):
                if skey in js.pres:
                    p = js.pres[skey].l
                    pr = sess.lift(lambda a, b: (a, b), [js.vals[skey], sc[i]])
                    for g, (a, b) in vc.alts(pr):
                        if b is None:
                            continue  # undefined score: nothing to be faithful to
                        if not (isinstance(a, float) and repr(a) == repr(b)):
                            O.must_not(sess, chk, m.AND(p, g), "%s %s: %s is %r but scores()[%d] is %r" % (label, opt, skey, a, i, b), mk)
                if vkey_ and vkey_ in js.pres:
                    p = js.pres[vkey_].l
                    pr = sess.lift(lambda a, b: (a, b), [js.vals[vkey_], sv[i]])
                    for g, (a, b) in vc.alts(pr):
                        if not (isinstance(a, str) and a.upper() == str(b).upper()):
                            O.must_not(sess, chk, m.AND(p, g), "%s %s: %s is %r but the rating is %r" % (label, opt, vkey_, a, b), mk)
            # base score must always be there
            O.must_hold(sess, chk, js.pres.get("baseScore", vc.CF), "%s %s: baseScore present" % (label, opt), mk)
            # metric fields
            groups = {"base": g_["mandatory"]}
            if version in (2, 3):
                groups["temporal"] = g_["temporal"]
                groups["environmental"] = g_["environmental"]
            else:
                groups["rest"] = [x for x, _ in g_["metrics"] if x not in g_["mandatory"]]
            for met, _ in g_["metrics"]:
                keys, names = table[met]
                present_keys = [k for k in keys if k in js.pres]
                want = effective_name_guard(sess, version, vars_, met, names)
                anyp = m.or_all([js.pres[k].l for k in present_keys])
                in_group = [gn for gn, lst in groups.items() if met in lst][0]
                # presence rule
                if in_group == "base" or version == 4 or not minimal:
                    O.must_not(sess, chk, m.NOT(anyp), "%s %s: the field of %s is present" % (label, opt, met), mk)
                else:
                    grp = groups[in_group]
                    some_def = m.or_all([m.NOT(m.or_all([m.atom(vars_[x], lab) for lab in vars_[x].domain if lab is ABSENT or lab == ND[version]])) for x in grp])
                    O.must_not(sess, chk, m.AND(some_def, m.NOT(anyp)), "%s %s: the %s group is kept when one of its metrics has a defined value (field of %s)" % (label, opt, in_group, met), mk)
                for k in present_keys:
                    p = js.pres[k].l
                    for g, leaf in vc.alts(js.vals[k]):
                        okg = want.get(leaf, m.FALSE) if isinstance(leaf, str) else m.FALSE
                        O.must_not(sess, chk, m.AND(m.AND(p, g), m.NOT(okg)), "%s %s: %s = %r names the effective value of %s" % (label, opt, k, leaf, met), mk)
    # sort: same items, ascending keys; minimal: subset of non-minimal
    for minimal in (False, True):
        a, b = results[(False, minimal)], results[(True, minimal)]
        mk = mk_replay_f(True, minimal)
        O.must_hold(sess, chk, O.eq_cond(sess, a, b), "%s: sort=True changes no item (minimal=%s)" % (label, minimal), mk)
        if list(b.keys) != sorted(b.keys):
            O.must_not(sess, chk, m.TRUE, "%s: sort=True gives ascending keys (minimal=%s): %r" % (label, minimal, b.keys[:6]), mk)
        else:
            chk.add_vc("%s: sort=True gives ascending keys (minimal=%s)" % (label, minimal), "unsat", 0, 0, trivial=True)
    for sort in (False, True):
        full, mini = results[(sort, False)], results[(sort, True)]
        mk = mk_replay_f(sort, True)
        for k in mini.keys:
            if k not in full.pres:
                O.must_not(sess, chk, mini.pres[k].l, "%s: minimal output has key %r that the full output lacks" % (label, k), mk)
                continue
            O.must_not(sess, chk, m.AND(mini.pres[k].l, m.NOT(full.pres[k].l)), "%s: minimal output is a subset of the full output (%s)" % (label, k), mk)
            O.must_not(sess, chk, m.AND(mini.pres[k].l, m.NOT(O.eq_cond(sess, mini.vals[k], full.vals[k]).l)), "%s: minimal output keeps the value of %s" % (label, k), mk)
    chk.witnesses.append({"task": label, "vector": sess.vector_string(version, m.pattern_assignment(0))})
    chk.absorb(sess)
    return chk.to_dict()


# -------------------------------------------------------------------------------------------------
# mains
# -------------------------------------------------------------------------------------------------


def main_c08():
    chk = Check("C08")
    tasks = [("task_c08", (v,)) for v in (2, 3, 4)]
    for r in C.run_named_tasks("harness.jsonprops", tasks):
        chk.absorb_dict(r)
    # interactive builder output: checked by harness.interactive (shares C16's model)
    try:
        from . import interactive

        for r in C.run_named_tasks("harness.interactive", interactive.c08_tasks()):
            chk.absorb_dict(r)
    except ImportError:
        chk.outside.append("interactive builder output (see C16)")
    chk.input_model = "M-ASSIGN (scores abstracted): clean_vector() and the vector part of rh_vector() as structured strings; re-parsed by the real constructor and run through an NFA of the official vectorString pattern (pinned copy of tests/schemas, read at run time); the interactive builder's result in the 8 configurations of C16 (M-ANSWERS)"
    chk.bounds = ["none on the metric domain", "interactive builder: as C16 (finite answer alphabet, retry bound)"]
    chk.stubs = ["compute_*_score := arbitrary scores (the emitted vector does not depend on them)"]
    chk.assumptions = ["official patterns: /verif/spec/schemas/*.json (SHA-256 pinned)", "regex engine /verif/spec/regex_nfa.py (validated against Python re on 12,000 strings)"]
    C.finish(chk)


def main_c10():
    chk = Check("C10")
    tasks = [("task_c10", (v, False)) for v in (2, 3, 4)] + [("task_c10", (v, True)) for v in (2, 3, 4)]
    for r in C.run_named_tasks("harness.jsonprops", tasks):
        chk.absorb_dict(r)
    chk.input_model = "M-ASSIGN (scores abstracted to arbitrary one-decimal values, severities computed by the real code); as_json for the four option combinations; additionally inputs with one adjacent transposition of two fields (echoed in vectorString)"
    chk.bounds = ["input field order: canonical, or canonical with one adjacent transposition"]
    chk.stubs = ["compute_*_score := arbitrary scores"]
    chk.assumptions = ["JSON round trip is the identity on str / float / dict with str keys (confirmed by the real json module in every replay)",
                       "multipleOf / minimum / maximum evaluated in exact decimal arithmetic on the shortest repr of the float (a JSON number 0.3 is a multiple of 0.1)",
                       "schemas: /verif/spec/schemas/*.json (SHA-256 pinned copies of tests/schemas)"]
    C.finish(chk)


def main_c11():
    chk = Check("C11")
    from .scores import split_tasks

    tasks = [("task_c11", t) for t in split_tasks(2)] + [("task_c11", (v,)) for v in (3, 4)]
    for r in C.run_named_tasks("harness.jsonprops", tasks):
        chk.absorb_dict(r)
    chk.input_model = "M-ASSIGN (v2: real scoring, 27 sessions; v3/v4: scores abstracted); as_json for the four option combinations compared field by field with the input string, scores(), severities() and an independent table of field and value names (/verif/spec/json_names.py)"
    chk.bounds = ["none on the metric domain"]
    chk.stubs = ["compute_*_score := arbitrary scores"]
    chk.assumptions = ["v4 field names: the official schema's property names and the library's descriptive names are both accepted; value-name aliases listed in /verif/spec/json_names.py"]
    C.finish(chk)
