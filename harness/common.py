"""
Shared harness machinery: sessions (guard manager + value context + interpreter over /repo),
the M-ASSIGN input model, verdict helpers with counterexample extraction, pattern conformance
against the real library, evidence files, known findings, replay.
"""

import hashlib
import json
import os
import subprocess
import sys
import time
import traceback

HERE = os.path.dirname(os.path.abspath(__file__))
ROOT = os.path.dirname(HERE)
if ROOT not in sys.path:
    sys.path.insert(0, ROOT)

from pysymex import structstr as SS  # noqa: E402
from pysymex.guards import GuardMgr, Inconclusive  # noqa: E402
from pysymex.interp import Frame, Interp, Obj, is_special  # noqa: E402
from pysymex.values import (  # noqa: E402
    ABSENT,
    UNBOUND,
    Cond,
    EngineError,
    Opaque,
    Pair,
    StructStr,
    SymDict,
    SymList,
    U,
    Unsupported,
    VCtx,
    set_epoch,
)
from spec import grammar as G  # noqa: E402

REPO = os.environ.get("CVSS_REPO", "/repo")
REPLAY_PY = "/venv/bin/python"

EXIT_OK, EXIT_VIOLATION, EXIT_INCONCLUSIVE, EXIT_HARNESS = 0, 1, 2, 3


def tier():
    t = os.environ.get("VERIF_TIER", "quick")
    return t if t in ("quick", "thorough") else "quick"


def seed():
    try:
        return int(os.environ.get("VERIF_SEED", "0"))
    except ValueError:
        return 0


class Session(object):
    """one guard manager + interpreter over the current /repo working tree"""

    def __init__(self, seed_=None, npat=None, extra_roots=None, merge_timeout_ms=None, verdict_timeout_ms=None):
        t = tier()
        if seed_ is None:
            seed_ = seed()
        if npat is None:
            npat = 2048 if t == "quick" else 4096
        self.m = GuardMgr(
            seed=seed_,
            npat=npat,
            merge_timeout_ms=merge_timeout_ms or (10000 if t == "quick" else 60000),
            verdict_timeout_ms=verdict_timeout_ms or (120000 if t == "quick" else 900000),
        )
        self.m.verbose = bool(os.environ.get("VERIF_DEBUG"))
        self.vc = VCtx(self.m)
        self.vc.debug = self.m.verbose
        self.it = Interp(self.vc, repo_root=REPO, extra_roots=[ROOT] + list(extra_roots or []))
        self.top = None
        self.vars = {}
        self.t0 = time.time()

    # -- running code -------------------------------------------------------------------------

    def load(self, qualname):
        set_epoch(0)
        mod = self.it.load_module(qualname)
        return mod

    def begin(self, mod):
        """push a top-level frame in which harness calls are made"""
        self.top = Frame(self.it, mod, None, None)
        self.it.frames.append(self.top)
        return self.top

    def reset_top(self):
        """forget anything harness-level helper evaluations left in the top-level frame"""
        top = self.top
        top.scopes = [[]]
        top.loops = []
        top.ret_c = self.vc.CF
        top.dead = self.vc.CF
        top.not_dead = self.vc.CT

    def nosink(self, cond, exc):
        """sink for harness-level lifts: operations on 'no value' alternatives are ignored"""
        self.harness_raises = getattr(self, "harness_raises", [])
        if not isinstance(exc, UnboundLocalError):
            self.harness_raises.append((cond, exc))

    def lift(self, f, args):
        """harness-level lifted operation (never touches interpreter frames)"""
        return self.vc.lift(f, list(args), self.vc.CT, self.nosink)

    def call(self, f, args, kwargs=None, pc=None):
        """call f; returns (value, raised) where raised = [(Cond, exception)] escaping the call"""
        top = self.top
        self.reset_top()
        top.scopes.append([])
        try:
            v = self.it.call(f, list(args), dict(kwargs or {}), pc or self.vc.CT)
        finally:
            raised = top.scopes.pop()
        self.it._recompute_dead(top)
        return v, raised

    def call_method(self, recv, name, args=(), kwargs=None, pc=None):
        top = self.top
        self.reset_top()
        top.scopes.append([])
        try:
            v = self.it.call_method(recv, name, list(args), dict(kwargs or {}), top, pc or self.vc.CT)
        finally:
            raised = top.scopes.pop()
        self.it._recompute_dead(top)
        return v, raised

    # -- input model M-ASSIGN -----------------------------------------------------------------

    def assign_vars(self, version, prefix="", with_minor=True, only=None, fixed=None):
        """one finite-domain variable per metric (ABSENT + legal values for optional ones) and,
        for v3, the minor version.  `fixed` maps metric -> list of allowed labels (sub-domain)."""
        g = G.GRAMMARS[version]
        m = self.m
        out = {}
        fixed = fixed or {}
        if version == 3 and with_minor:
            out["minor"] = m.new_var(prefix + "minor", fixed.get("minor", ["0", "1"]))
        for met, vals in g["metrics"]:
            if only is not None and met not in only and met not in g["mandatory"]:
                continue
            dom = list(vals) if met in g["mandatory"] else [ABSENT] + list(vals)
            if met in fixed:
                dom = [d for d in dom if d in fixed[met]]
            out[met] = m.new_var(prefix + met, dom)
        return out

    def vector_from_vars(self, version, vars_, order=None):
        """canonical-order structured string of the vector described by the variables"""
        g = G.GRAMMARS[version]
        m, vc = self.m, self.vc
        chunks = []
        if version == 3:
            if "minor" in vars_:
                chunks.append((m.TRUE, vc.from_var(vars_["minor"], lambda lab: "CVSS:3." + lab)))
            else:
                chunks.append((m.TRUE, "CVSS:3.1"))
        elif version == 4:
            chunks.append((m.TRUE, "CVSS:4.0"))
        names = order or [met for met, _ in g["metrics"]]
        for met in names:
            if met not in vars_:
                continue
            v = vars_[met]
            # total union: where the metric is absent the chunk is not there and its text ("")
            # is never looked at
            val = vc.from_var(v, lambda lab, met=met: "" if lab is ABSENT else met + ":" + lab)
            if ABSENT in v.index:
                pres = m.NOT(m.atom(v, ABSENT))
            else:
                pres = m.TRUE
            chunks.append((pres, val))
        return StructStr("/", chunks)

    # -- concretisation -----------------------------------------------------------------------

    def concretize(self, v, asg, side="l"):
        """Python value of v under the full assignment asg ({var name: label})"""
        m = self.m
        t = type(v)
        if t is U:
            for g, leaf in v.alts:
                if m.eval_nodes([g], asg)[0]:
                    return self.concretize(leaf, asg, side)
            return UNBOUND
        if t is Pair:
            return self.concretize(v.l if side == "l" else v.r, asg, side)
        if t is StructStr:
            out = []
            for g, s in v.chunks:
                if m.eval_nodes([g], asg)[0]:
                    out.append(self.concretize(s, asg, side))
            return v.sep.join(out)
        if t is SymList:
            out = []
            for p, e in v.elems:
                if m.eval_nodes([p.l if side == "l" else p.r], asg)[0]:
                    out.append(self.concretize(e, asg, side))
            if getattr(v, "origin", None) == "set":
                return out
            return tuple(out) if v.is_tuple else out
        if t is SymDict:
            out = {}
            for k in v.keys:
                p = v.pres[k]
                if m.eval_nodes([p.l if side == "l" else p.r], asg)[0]:
                    out[k] = self.concretize(v.vals[k], asg, side)
            return out
        if t is tuple:
            return tuple(self.concretize(x, asg, side) for x in v)
        if t is Opaque:
            return ("<opaque %s>" % v.kind,)
        return v

    def vector_string(self, version, asg, prefix=""):
        """concrete vector text for an assignment of the M-ASSIGN variables (canonical order)"""
        g = G.GRAMMARS[version]
        parts = []
        if version == 3:
            parts.append("CVSS:3." + asg.get(prefix + "minor", "1"))
        elif version == 4:
            parts.append("CVSS:4.0")
        for met, _ in g["metrics"]:
            lab = asg.get(prefix + met, ABSENT)
            if lab is ABSENT:
                continue
            parts.append(met + ":" + lab)
        return "/".join(parts)


# -------------------------------------------------------------------------------------------------
# check driver
# -------------------------------------------------------------------------------------------------


class Check(object):
    """collects verification conditions, counterexamples and evidence for one property run"""

    def __init__(self, pid, title=""):
        self.pid = pid
        self.title = title
        self.t0 = time.time()
        self.vcs = []  # dicts: name, result, time, size
        self.counterexamples = []
        self.inconclusive = []
        self.harness_errors = []
        self.known_hits = []
        self.stats = []
        self.functions_encoded = {}
        self.files = {}
        self.assumptions = []
        self.bounds = []
        self.outside = []
        self.stubs = []
        self.input_model = ""
        self.extra = {}
        self.trivial = 0
        self.conformance = {"patterns": 0, "vectors": 0, "mismatches": 0}
        self.witnesses = []

    def add_vc(self, name, result, dt=0.0, size=0, trivial=False, detail=None):
        if trivial:
            self.trivial += 1
        rec = {"name": name, "result": result, "time_s": round(dt, 4), "cone": size}
        if trivial:
            rec["closed_syntactically"] = True
        if detail:
            rec["detail"] = detail
        self.vcs.append(rec)
        if result == "unknown":
            self.inconclusive.append(name)

    def absorb(self, sess):
        self.stats.append(sess.m.stats.as_dict())
        for (mod, qn), (a, b) in sess.it.functions_encoded.items():
            self.functions_encoded["%s:%s" % (mod, qn)] = [a, b]
        self.files.update(sess.it.files_read)
        n = getattr(sess.it, "dict_order_iterations", 0)
        if n:
            # engine key order stands in for insertion order there (DESIGN.md section 10)
            self.extra["iterations_over_dicts_with_symbolically_inserted_keys"] = self.extra.get("iterations_over_dicts_with_symbolically_inserted_keys", 0) + n

    def absorb_dict(self, d):
        """merge a worker's result dict"""
        self.vcs.extend(d.get("vcs", []))
        self.counterexamples.extend(d.get("counterexamples", []))
        self.inconclusive.extend(d.get("inconclusive", []))
        self.harness_errors.extend(d.get("harness_errors", []))
        self.stats.extend(d.get("stats", []))
        self.functions_encoded.update(d.get("functions_encoded", {}))
        self.files.update(d.get("files", {}))
        self.trivial += d.get("trivial", 0)
        for k in self.conformance:
            self.conformance[k] += d.get("conformance", {}).get(k, 0)
        self.witnesses.extend(d.get("witnesses", []))
        for k, v in d.get("extra", {}).items():
            if isinstance(v, list):
                self.extra.setdefault(k, []).extend(v)
            elif isinstance(v, (int, float)) and not isinstance(v, bool):
                self.extra[k] = self.extra.get(k, 0) + v
            else:
                self.extra[k] = v

    def to_dict(self):
        return {
            "vcs": self.vcs,
            "counterexamples": self.counterexamples,
            "inconclusive": self.inconclusive,
            "harness_errors": self.harness_errors,
            "stats": self.stats,
            "functions_encoded": self.functions_encoded,
            "files": self.files,
            "trivial": self.trivial,
            "conformance": self.conformance,
            "witnesses": self.witnesses,
            "extra": self.extra,
        }


def unsat_or_cex(chk, sess, guard, name, describe=None):
    """verdict query: guard must be unsatisfiable.  Returns None if unsat, the assignment if sat;
    unknown is recorded as inconclusive."""
    m = sess.m
    g = m.find(guard)
    t0 = time.time()
    if g is m.FALSE:
        chk.add_vc(name, "unsat", 0.0, 0, trivial=True)
        return None
    size = m.cone_size([g])
    status, model = m.verdict_unsat(g, name)
    dt = time.time() - t0
    detail = None
    chk._nsolved = getattr(chk, "_nsolved", 0) + 1
    if status == "unsat" and tier() == "thorough" and size <= 200000 and (chk._nsolved <= 10 or chk._nsolved % 25 == 0):
        # second opinion: the same query as a stand-alone pure-Boolean SMT-LIB2 file, decided by
        # the z3 4.8.12 binary (different version, different front end)
        detail = second_opinion(chk, m, g, name)
    chk.add_vc(name, status, dt, size, detail=detail)
    if status == "sat":
        return model
    return None


def second_opinion(chk, m, g, name):
    import tempfile

    fd, path = tempfile.mkstemp(prefix="verif_vc_", suffix=".smt2", dir="/var/tmp")
    os.close(fd)
    try:
        m.dump_smt2([g], path)
        try:
            p = subprocess.run(["/usr/bin/z3", "-T:300", path], capture_output=True, text=True, timeout=330)
            out = p.stdout.strip().splitlines()
            res = out[0] if out else "no output"
            if "(error" in p.stdout:
                res = "error: " + p.stdout[:100]
        except subprocess.TimeoutExpired:
            res = "timeout"
        if res == "sat":
            chk.harness_errors.append("solvers disagree on %s: z3 5.1 QF_FD unsat, z3 4.8.12 sat" % name)
        chk.extra["second_solver_" + ("agree" if res == "unsat" else "other")] = chk.extra.get("second_solver_" + ("agree" if res == "unsat" else "other"), 0) + 1
        return {"second_solver": "z3 4.8.12 binary", "result": res}
    finally:
        try:
            os.remove(path)
        except OSError:
            pass


def guarded(fn, args):
    """run fn(*args); convert engine errors into a result dict"""
    try:
        return fn(*args)
    except Unsupported as e:
        return {"inconclusive": ["unsupported construct: %s" % (e,)], "trace": traceback.format_exc()[-1500:]}
    except Inconclusive as e:
        return {"inconclusive": ["inconclusive: %s" % (e,)]}
    except EngineError as e:
        return {"inconclusive": ["engine: %r" % (e,)]}
    except RecursionError as e:
        return {"inconclusive": ["recursion limit: %r" % (e,)]}
    except MemoryError:
        return {"inconclusive": ["task exceeded its memory cap (VERIF_TASK_MEM_GB)"]}
    except Exception as e:  # noqa: BLE001
        if "out of memory" in repr(e):
            return {"inconclusive": ["task exceeded its memory cap inside the solver (VERIF_TASK_MEM_GB): %r" % (e,)]}
        return {"harness_errors": ["%r\n%s" % (e, traceback.format_exc()[-3000:])]}


def worker_guard(fn):
    return fn


def _invoke(modname, fname, args):
    import importlib

    fn = getattr(importlib.import_module(modname), fname)
    return guarded(fn, args)


def _child(modname, fname, args, path, mem_gb=None):
    import pickle
    import resource

    # address-space cap per task: a task that runs away ends in MemoryError (reported as a harness
    # error / inconclusive for that task) instead of taking its siblings down with the OOM killer
    try:
        cap = int(float(mem_gb or os.environ.get("VERIF_TASK_MEM_GB", "9")) * 2**30)
        resource.setrlimit(resource.RLIMIT_AS, (cap, cap))
    except Exception:
        pass
    res = _invoke(modname, fname, args)
    tmp = path + ".tmp"
    with open(tmp, "wb") as f:
        pickle.dump(res, f)
    os.replace(tmp, path)


def run_named_tasks(modname, tasks, procs=None, task_timeout=None, heavy=None):
    """tasks: [(function name, args tuple)] all in module modname.  One forked process per task,
    at most `procs` at a time, each with a wall-clock limit; a task whose process dies or runs
    out of time yields an 'inconclusive' result (never a pass)."""
    import multiprocessing as mp
    import pickle
    import shutil
    import tempfile

    if procs is None:
        procs = min(len(tasks), int(os.environ.get("VERIF_PROCS", "14")))
    if task_timeout is None:
        task_timeout = float(os.environ.get("VERIF_TASK_TIMEOUT", "1500" if tier() == "quick" else "7200"))
    if procs <= 1 and len(tasks) <= 1:
        return [_invoke(modname, f, a) for f, a in tasks]
    ctx = mp.get_context("fork")
    d = tempfile.mkdtemp(prefix="verif_tasks_", dir="/var/tmp")
    results = [None] * len(tasks)
    running = {}
    # heavy: set of task indices known to need much memory: at most VERIF_HEAVY_SLOTS of them run
    # at a time, each with the larger address-space cap VERIF_TASK_MEM_GB_HEAVY
    heavy = set(heavy or ())
    heavy_slots = int(os.environ.get("VERIF_HEAVY_SLOTS", "3"))
    heavy_gb = os.environ.get("VERIF_TASK_MEM_GB_HEAVY", "14")
    pending = list(range(len(tasks)))
    try:
        while pending or running:
            while pending and len(running) < procs:
                nheavy = sum(1 for i in running if i in heavy)
                nxt = None
                for i in pending:
                    if i not in heavy or nheavy < heavy_slots:
                        nxt = i
                        break
                if nxt is None:
                    break
                pending.remove(nxt)
                f, a = tasks[nxt]
                path = os.path.join(d, "%d.pkl" % nxt)
                p = ctx.Process(target=_child, args=(modname, f, a, path, heavy_gb if nxt in heavy else None))
                p.start()
                running[nxt] = (p, path, time.time())
            time.sleep(0.05)
            for i in list(running):
                p, path, t0 = running[i]
                if os.path.exists(path):
                    with open(path, "rb") as fh:
                        results[i] = pickle.load(fh)
                    for key in ("inconclusive", "harness_errors"):
                        if results[i].get(key):
                            results[i][key] = ["task %s%r: %s" % (tasks[i][0], tasks[i][1], x) for x in results[i][key]]
                    p.join(5)
                    del running[i]
                elif not p.is_alive():
                    p.join(1)
                    if os.path.exists(path):
                        continue
                    results[i] = {"inconclusive": ["task %s%r: worker process ended without a result (exit code %r)" % (tasks[i][0], tasks[i][1], p.exitcode)]}
                    del running[i]
                elif time.time() - t0 > task_timeout:
                    p.terminate()
                    p.join(5)
                    results[i] = {"inconclusive": ["task %s%r: exceeded the task time limit of %.0f s" % (tasks[i][0], tasks[i][1], task_timeout)]}
                    del running[i]
    finally:
        for p, path, t0 in running.values():
            p.terminate()
        shutil.rmtree(d, ignore_errors=True)
    return results


def run_tasks(fn, tasks, procs=None, heavy=None):
    """run fn over tasks in worker processes; returns list of results in task order"""
    return run_named_tasks(fn.__module__, [(fn.__name__, t) for t in tasks], procs, heavy=heavy)


# -------------------------------------------------------------------------------------------------
# known findings, replay, evidence
# -------------------------------------------------------------------------------------------------


def load_known():
    p = os.path.join(ROOT, "known_findings.json")
    if not os.path.exists(p):
        return []
    with open(p) as f:
        return json.load(f).get("findings", [])


def replay(pid, payload):
    """run the concrete replay of a counterexample against the real library in a fresh
    /venv/bin/python process; returns dict with 'violates' (bool) and details"""
    d = os.path.join(os.environ.get("VERIF_REPLAY_DIR") or os.path.join(ROOT, "replays"), pid)
    os.makedirs(d, exist_ok=True)
    h = hashlib.sha256(json.dumps(payload, sort_keys=True, default=str).encode()).hexdigest()[:12]
    path = os.path.join(d, "%s.json" % h)
    with open(path, "w") as f:
        json.dump(payload, f, indent=1, sort_keys=True, default=str)
    res = run_replay(path)
    return path, res


def run_replay(path):
    env = dict(os.environ)
    env["PYTHONPATH"] = REPO + os.pathsep + ROOT
    try:
        p = subprocess.run(
            [REPLAY_PY, os.path.join(ROOT, "harness", "replay.py"), path],
            capture_output=True, text=True, timeout=300, env=env, cwd=ROOT,
        )
    except subprocess.TimeoutExpired:
        return {"violates": None, "error": "replay timed out"}
    out = p.stdout.strip().splitlines()
    for line in reversed(out):
        if line.startswith("{"):
            try:
                return json.loads(line)
            except ValueError:
                pass
    return {"violates": None, "error": "replay produced no result", "stdout": p.stdout[-800:], "stderr": p.stderr[-800:]}


def finish(chk, level="model_checking"):
    """triage counterexamples (replay, known findings), write evidence, print verdict lines and
    exit with the interface's code"""
    known = [k for k in load_known() if k.get("property") == chk.pid and k.get("status") == "known"]
    violations = []
    harness_err = list(chk.harness_errors)
    known_printed = {}
    for cex in chk.counterexamples:
        payload = cex["replay"]
        path, res = replay(chk.pid, payload)
        cex["replay_path"] = path
        cex["replay_result"] = res
        if res.get("violates") is True:
            key = res.get("finding_key") or cex.get("finding_key") or (payload.get("finding_key") if isinstance(payload, dict) else None)
            hit = None
            for k in known:
                if key is not None and k.get("key") == key:
                    hit = k
                    break
            if hit is not None:
                known_printed.setdefault(hit["key"], (hit, path))
            else:
                violations.append((cex, path))
        elif res.get("violates") is None and res.get("inconclusive"):
            chk.inconclusive.append("%s: %s" % (cex.get("vc"), res["inconclusive"]))
        elif res.get("violates") is False:
            harness_err.append("counterexample for %s did not reproduce on the real code: %s" % (cex.get("vc"), json.dumps(res)[:400]))
        else:
            harness_err.append("replay failed for %s: %s" % (cex.get("vc"), json.dumps(res)[:400]))
    nsat = sum(1 for v in chk.vcs if v["result"] == "sat")
    if nsat and not chk.counterexamples and not chk.inconclusive:
        harness_err.append("%d verification condition(s) are satisfiable but no replayable counterexample was produced" % nsat)
    wall = time.time() - chk.t0
    # evidence
    total_q = sum(s["total"] for s in chk.stats)
    verdicts = [v for v in chk.vcs]
    nontrivial = [v for v in verdicts if not v.get("closed_syntactically")]
    merged = {}
    for s in chk.stats:
        for kind, d in s["by_kind"].items():
            dd = merged.setdefault(kind, {})
            for r, c in d.items():
                dd[r] = dd.get(r, 0) + c
    samples = []
    for v in nontrivial[:6]:
        samples.append({"verification_condition": v})
    for w in chk.witnesses[:4]:
        samples.append({"reachability_witness": w})
    for cex in chk.counterexamples[:4]:
        samples.append({"counterexample": {k: cex[k] for k in cex if k != "replay_result"}, "replayed": cex.get("replay_result")})
    if not samples:
        samples = [{"verification_condition": v} for v in verdicts[:3]]
    merges = sum(s.get("merges_proved", 0) for s in chk.stats)
    ev = {
        "property_id": chk.pid,
        "tier": tier(),
        "seed": seed(),
        "level": level,
        "coverage": {
            "evaluations": max(1, total_q + len(verdicts)),
            "distinct_nontrivial": len(nontrivial) + merges,
            "rule": "evaluations = solver queries discharged by this run (merge, infeasibility, branch, "
            "cofactor, verdict, vacuity) plus verification conditions closed syntactically; "
            "distinct_nontrivial = verdict conditions that needed the solver (not closed by "
            "syntactic identity of the swept guards) plus sweeping merges the solver proved; each "
            "has a distinct formula by construction (hash-consed DAG)",
            "samples": samples,
            "exhaustive": False,
            "verification_conditions": len(verdicts),
            "verification_conditions_closed_syntactically": chk.trivial,
            "verification_conditions_by_result": _count(verdicts),
            "functions_encoded": chk.functions_encoded,
            "source_files_sha256": chk.files,
            "input_model": chk.input_model,
            "bounds": chk.bounds,
            "outside_claim": chk.outside,
            "stubs": chk.stubs,
            "queries_by_kind": merged,
            "solver_time_s": round(sum(s["solver_time_s"] for s in chk.stats), 2),
            "sweep_unknowns": sum(s.get("unknown", 0) for s in chk.stats),
            "undecided_feasibility_kept": sum(s.get("undecided_feasibility", 0) for s in chk.stats),
            "conformance": chk.conformance,
            "known_findings_rediscovered": sorted(known_printed),
            "inconclusive": chk.inconclusive[:20],
            "harness_errors": harness_err[:10],
        },
        "assumptions": chk.assumptions,
        "wall_s": round(wall, 2),
        "violations": len(violations),
    }
    ev["coverage"].update(chk.extra)
    # (VERIF_EVIDENCE_DIR: only tools_mutants.py sets it, so that runs against a scratch copy with
    # a seeded change never touch the evidence of the real tree)
    evdir = os.environ.get("VERIF_EVIDENCE_DIR") or os.path.join(ROOT, "evidence")
    os.makedirs(evdir, exist_ok=True)
    with open(os.path.join(evdir, chk.pid + ".json"), "w") as f:
        json.dump(ev, f, indent=1, default=str)
    for key, (hit, path) in sorted(known_printed.items()):
        print("KNOWN-FINDING: property=%s %s %s (replay %s)" % (chk.pid, key, hit.get("what", ""), path))
    if violations:
        for cex, path in violations:
            print("VIOLATION property=%s replay=%s" % (chk.pid, path))
            print("  vc=%s %s" % (cex.get("vc"), json.dumps(cex.get("replay_result"))[:600]))
        sys.exit(EXIT_VIOLATION)
    if harness_err:
        for e in harness_err[:5]:
            print("HARNESS-ERROR property=%s %s" % (chk.pid, e[:2000]))
        sys.exit(EXIT_HARNESS)
    if chk.inconclusive:
        for e in chk.inconclusive[:8]:
            print("INCONCLUSIVE property=%s %s" % (chk.pid, str(e)[:600]))
        sys.exit(EXIT_INCONCLUSIVE)
    print(
        "OK property=%s tier=%s vcs=%d (solver-decided %d) queries=%d wall=%.1fs"
        % (chk.pid, tier(), len(verdicts), len(nontrivial), total_q, wall)
    )
    sys.exit(EXIT_OK)


def _count(vs):
    d = {}
    for v in vs:
        d[v["result"]] = d.get(v["result"], 0) + 1
    return d
