"""
Derivation of the v4.0 highest-severity vectors and depths from the EQ *definitions* (complete
enumeration of the small per-class value spaces: 36 / 4 / 729 / 48 combinations), compared with
the oracle's typed tables (/verif/spec/cvss4_spec.py) and with MAX_COMPOSED / MAX_SEVERITY read
from the current /repo source.  Makes the oracle's tables independent of their transcription:
 * the highest-severity vectors of a class level are its Pareto-maximal members under the
   per-metric severity order;
 * the depth is the largest severity distance of a member from a highest-severity vector it does
   not exceed, plus one;
 * every highest-severity vector that a member does not exceed gives the same distance (so the
   order in which the implementation tries them cannot matter).
"""
import itertools

from . import common as C
from .common import Check, Session


def task_tables(dummy):
    from spec import cvss4_spec as S

    chk = Check("C02")
    sess = Session()
    mod = sess.load("cvss.constants4")
    repo_max = mod.globals["MAX_COMPOSED"]
    repo_depth = mod.globals["MAX_SEVERITY"]
    L = S.LEVEL
    classes = [
        ("eq1", ["AV", "PR", "UI"], lambda v: S.eq1(v["AV"], v["PR"], v["UI"]), S.EQ1_MAX, S.EQ1_DEPTH),
        ("eq2", ["AC", "AT"], lambda v: S.eq2(v["AC"], v["AT"]), S.EQ2_MAX, S.EQ2_DEPTH),
        ("eq3eq6", ["VC", "VI", "VA", "CR", "IR", "AR"], lambda v: (S.eq3(v["VC"], v["VI"], v["VA"]), S.eq6(v["VC"], v["VI"], v["VA"], v["CR"], v["IR"], v["AR"])), S.EQ36_MAX, S.EQ36_DEPTH),
        ("eq4", ["SC", "SI", "SA"], lambda v: S.eq4(v["SC"], v["SI"], v["SA"]), S.EQ4_MAX, S.EQ4_DEPTH),
    ]
    nclasses = 0
    for name, mets, cls, spec_max, spec_depth in classes:
        members = {}
        for combo in itertools.product(*[list(L[m_]) for m_ in mets]):
            v = dict(zip(mets, combo))
            members.setdefault(cls(v), []).append(v)
        for level, vs in sorted(members.items(), key=lambda kv: str(kv[0])):
            nclasses += 1

            def geq(a, b):  # a at least as severe as b in every metric
                return all(L[m_][a[m_]] <= L[m_][b[m_]] for m_ in mets)

            pareto = [a for a in vs if not any(geq(b, a) and b != a for b in vs)]
            key = lambda d: tuple(d[m_] for m_ in mets)
            want = sorted(key(p) for p in pareto)
            got_spec = sorted(key(p) for p in spec_max[level])
            label = "%s level %s" % (name, level)
            ok = want == got_spec
            chk.add_vc("%s: oracle's highest-severity vectors are the Pareto-maximal members %r" % (label, want), "unsat" if ok else "sat", 0, 0, trivial=True)
            if not ok:
                chk.harness_errors.append("oracle table wrong for %s: typed %r, derived %r" % (label, got_spec, want))
            # repo table (strings like 'AV:N/PR:N/UI:N/')
            if name == "eq3eq6":
                rlist = repo_max["eq3"][str(level[0])][str(level[1])]
                rdepth = repo_depth["eq3eq6"][level[0]][level[1]]
            else:
                rlist = repo_max[name][str(level)]
                rdepth = repo_depth[name][level]
            got_repo = sorted(tuple(dict(f.split(":") for f in s_.strip("/").split("/"))[m_] for m_ in mets) for s_ in rlist)
            if got_repo != want:
                chk.add_vc("%s: MAX_COMPOSED of the current source equals the derived highest-severity vectors" % label, "sat", 0, 0, detail={"repo": got_repo, "derived": want})
                chk.counterexamples.append({"vc": "%s: MAX_COMPOSED" % label, "replay": {"kind": "c02_table", "class": name, "level": str(level), "repo": got_repo, "derived": want}})
            else:
                chk.add_vc("%s: MAX_COMPOSED of the current source equals the derived highest-severity vectors" % label, "unsat", 0, 0, trivial=True)
            # depth and uniqueness of the distance
            depth = 0
            for a in vs:
                ds = set()
                for p in pareto:
                    if geq(p, a):
                        ds.add(sum(L[m_][a[m_]] - L[m_][p[m_]] for m_ in mets))
                if len(ds) != 1:
                    chk.harness_errors.append("%s: member %r has distances %r to the highest-severity vectors it does not exceed" % (label, a, sorted(ds)))
                    continue
                depth = max(depth, ds.pop() + 1)
            for what, val in (("oracle", spec_depth[level]), ("MAX_SEVERITY of the current source", rdepth)):
                ok = val == depth
                chk.add_vc("%s: depth in %s is %d (derived: largest distance + 1 = %d)" % (label, what, val, depth), "unsat" if ok else "sat", 0, 0, trivial=True)
                if not ok and what == "oracle":
                    chk.harness_errors.append("oracle depth wrong for %s: %r vs derived %r" % (label, val, depth))
                elif not ok:
                    chk.counterexamples.append({"vc": "%s: MAX_SEVERITY" % label, "replay": {"kind": "c02_table", "class": name, "level": str(level), "repo_depth": val, "derived_depth": depth}})
    # the lookup table of the current source against the pinned copy of the official one: every
    # entry is the score of that macrovector's highest-severity vectors, so a differing entry is
    # witnessed by such a vector (complete over the 270 entries; the forks then establish that the
    # algorithm around the table is the specification's)
    from spec.cvss4_lookup import LOOKUP

    repo_lookup = mod.globals["CVSS_LOOKUP_GLOBAL"]
    repo_lookup = dict(repo_lookup) if not isinstance(repo_lookup, dict) else repo_lookup
    nbad = 0
    for mv in sorted(set(LOOKUP) | set(repo_lookup)):
        a, b = LOOKUP.get(mv), repo_lookup.get(mv)
        if a is None or b is None or float(a) != float(b):
            nbad += 1
            name = "lookup[%s]: current source %r, official table %r" % (mv, b, a)
            chk.add_vc(name, "sat", 0, 0)
            vec = None
            try:
                d = [int(c) for c in mv]
                vals = {}
                vals.update(S.EQ1_MAX[d[0]][0])
                vals.update(S.EQ2_MAX[d[1]][0])
                vals.update(S.EQ36_MAX[(d[2], d[5])][0])
                vals.update(S.EQ4_MAX[d[3]][0])
                vals["E"] = {0: "A", 1: "P", 2: "U"}[d[4]]
                if vals.get("SI") == "S":
                    vals["MSI"], vals["SI"] = "S", "H"
                if vals.get("SA") == "S":
                    vals["MSA"], vals["SA"] = "S", "H"
                from spec import grammar as G

                vec = "CVSS:4.0/" + "/".join("%s:%s" % (m_, vals[m_]) for m_, _ in G.V4["metrics"] if m_ in vals)
            except Exception:  # noqa: BLE001
                vec = None
            if vec is not None:
                chk.counterexamples.append({"vc": name, "replay": {"kind": "scores", "version": 4, "vector": vec}})
            else:
                chk.counterexamples.append({"vc": name, "replay": {"kind": "c02_table", "class": "lookup", "level": mv}})
    chk.add_vc("CVSS_LOOKUP_GLOBAL of the current source equals the pinned official table (%d entries)" % len(LOOKUP), "unsat" if not nbad else "sat", 0, 0, trivial=True)
    chk.extra["derived_classes"] = nclasses
    chk.files.update(sess.it.files_read)
    return chk.to_dict()
