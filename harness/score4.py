"""
C02: CVSS4 score equals the specification's macrovector / interpolation algorithm, for every
assignment of the 26 scoring metrics.  Case split over the 270 macrovectors (harness-level fork:
the fork's path condition is asserted in the solver and simulation patterns are re-sampled from
models of it), real CVSS4.__init__ executed symbolically in each fork, oracle
/verif/spec/cvss4_spec.py in exact rationals.
"""

import sys
import os
import time
from fractions import Fraction

from . import common as C
from .common import ABSENT, G, U, Check, Session, SymDict, SymList, unsat_or_cex
from .scores import compare_unions, construct, impl_key, metrics_symdict, spec_key

SCORING = ["AV", "AC", "AT", "PR", "UI", "VC", "VI", "VA", "SC", "SI", "SA", "E", "CR", "IR", "AR",
           "MAV", "MAC", "MAT", "MPR", "MUI", "MVC", "MVI", "MVA", "MSC", "MSI", "MSA"]


def spec_macrovector(sess, vars_):
    smod = sess.load("spec.cvss4_spec")
    if sess.top is None:
        sess.begin(smod)
    d = metrics_symdict(sess, 4, vars_)
    e, raised = sess.call(smod.globals["effective"], [d])
    if raised:
        raise C.Unsupported("spec effective() raised")
    mv, raised = sess.call(smod.globals["macrovector"], [e])
    if raised:
        raise C.Unsupported("spec macrovector() raised")
    items = [x for _, x in mv.elems] if isinstance(mv, SymList) else list(mv)
    return smod, d, e, items


def mv_guard(sess, items, digits):
    g = sess.m.TRUE
    for it, dg in zip(items, digits):
        g = sess.m.AND(g, sess.vc.guard_eq(it, dg))
    return g


def enumerate_macrovectors():
    """parent: which of the 3*2*3*3*3*2 digit combinations are feasible (solver-decided) and do
    they cover every assignment"""
    chk = Check("C02")
    sess = Session()
    vars_ = sess.assign_vars(4)
    smod, d, e, items = spec_macrovector(sess, vars_)
    m = sess.m
    feasible = []
    guards = []
    import itertools

    for digits in itertools.product(range(3), range(2), range(3), range(3), range(3), range(2)):
        g = mv_guard(sess, items, digits)
        r = m.is_sat(g, "vacuity")
        if r is None:
            chk.inconclusive.append("macrovector feasibility unknown %r" % (digits,))
        if r:
            feasible.append(digits)
            guards.append(g)
    cover = m.NOT(m.or_all(guards))
    model = unsat_or_cex(chk, sess, cover, "the %d feasible macrovectors cover every assignment" % len(feasible))
    if model is not None:
        chk.harness_errors.append("macrovector case split is not exhaustive: %r" % (model,))
    chk.absorb(sess)
    return chk, feasible


def fork(digits, d4=None):
    chk = Check("C02")
    sess = Session(npat=512)
    vars_ = sess.assign_vars(4)
    smod, d, e, items = spec_macrovector(sess, vars_)
    g = mv_guard(sess, items, digits)
    nsamp = 192 if C.tier() == "quick" else 512
    label = "mv=" + "".join(str(x) for x in digits)
    if d4 is not None:
        # large macrovectors are split further on the EQ4 severity distance (complete: the
        # sub-cases range over every value the distance can take, infeasible ones are vacuous)
        du, raised = sess.call(smod.globals["distance"], [e, smod.globals["EQ4_MAX"][digits[3]], ["SC", "SI", "SA"]])
        if isinstance(d4, tuple):
            # "rest": every value of the distance not covered by the numbered sub-forks
            g2 = sess.m.AND(g, sess.m.NOT(sess.m.or_all([sess.vc.guard_eq(du, k) for k in d4[1]])))
        else:
            g2 = sess.m.AND(g, sess.vc.guard_eq(du, d4))
        if sess.m.is_sat(g2, "vacuity") is not True:
            chk.extra["vacuous_subforks"] = 1
            chk.absorb(sess)
            return chk.to_dict()
        g = g2
        label += "[d4=%s]" % (d4 if not isinstance(d4, tuple) else "rest")
    sess.m.restrict(g, nsamples=nsamp)
    t0 = time.time()
    # implementation (real constructor on the M-ASSIGN vector, under the fork's assumption)
    vec = sess.vector_from_vars(4, vars_)
    mod = sess.load("cvss")
    C.set_epoch(1)
    cls = mod.globals["CVSS4"]
    obj, raised = sess.call(cls, [vec])
    for cond, exc in raised:
        nm = type(exc).__name__ if isinstance(exc, BaseException) else exc.cls.name
        model = unsat_or_cex(chk, sess, sess.vc.c_any(cond), "%s: constructor raises %s" % (label, nm))
        if model is not None:
            chk.counterexamples.append({"vc": "%s: constructor raises %s" % (label, nm), "replay": {"kind": "scores", "version": 4, "vector": sess.vector_string(4, model)}})
    sc, raised = sess.call_method(obj, "scores")
    impl_items = [x for _, x in sc.elems] if isinstance(sc, SymList) else list(sc)
    t_impl = time.time() - t0

    def mk_replay(model):
        return {"kind": "scores", "version": 4, "vector": sess.vector_string(4, model)}

    # macroVector() of the implementation is the fork's macrovector
    mvs, raised = sess.call_method(obj, "macroVector")
    want = "".join(str(x) for x in digits)
    bad = sess.m.NOT(sess.vc.guard_eq(mvs, want))
    model = unsat_or_cex(chk, sess, bad, "%s: macroVector() == EQ digits of the specification" % label)
    if model is not None:
        chk.counterexamples.append({"vc": "%s: macroVector()" % label, "replay": {"kind": "macrovector4", "vector": sess.vector_string(4, model)}})
    # oracle
    t0 = time.time()
    mvt = tuple(digits)
    sp, raised = sess.call(smod.globals["score_of"], [e, mvt])
    for cond, exc in raised:
        # the specification algorithm is undefined (no highest-severity vector qualifies):
        # that is itself a violation candidate of the derived-table lemma
        model = unsat_or_cex(chk, sess, sess.vc.c_any(cond), "%s: some highest-severity vector of each class qualifies" % label)
        if model is not None:
            chk.harness_errors.append("specification undefined for %s: %r" % (sess.vector_string(4, model), exc))
    t_spec = time.time() - t0
    if len(impl_items) != 1:
        chk.harness_errors.append("CVSS4.scores() returned %d items" % len(impl_items))
        return chk.to_dict()
    t0 = time.time()
    compare_unions(sess, chk, "%s score" % label, impl_items[0], sp, impl_key, spec_key, mk_replay)
    t_cmp = time.time() - t0
    # severity consistent with the score (shared with C09): the (score, severity) pairs reached
    w = sess.m.pattern_assignment(0)
    chk.witnesses.append({"fork": label, "vector": sess.vector_string(4, w), "impl": repr(sess.concretize(impl_items[0], w)), "spec": str(sess.concretize(sp, w))})
    conformance4(sess, chk, impl_items[0], 12 if C.tier() == "quick" else 64)
    chk.extra["forks"] = 1
    chk.extra["timing"] = [{"fork": label, "impl_s": round(t_impl, 2), "spec_s": round(t_spec, 2), "compare_s": round(t_cmp, 2), "nodes": len(sess.m.nodes), "patterns": sess.m.npat}]
    chk.absorb(sess)
    return chk.to_dict()


def conformance4(sess, chk, impl_v, n):
    sys.path.insert(0, C.REPO)
    try:
        import importlib

        cvss = importlib.import_module("cvss")
    finally:
        sys.path.pop(0)
    n = min(n, sess.m.npat)
    for k in range(n):
        asg = sess.m.pattern_assignment(k)
        vs = sess.vector_string(4, asg)
        try:
            real = cvss.CVSS4(vs).base_score
        except Exception as e:  # noqa: BLE001
            real = ("exception", type(e).__name__)
        sym = sess.concretize(impl_v, asg)
        chk.conformance["patterns"] += 1
        if repr(real) != repr(sym):
            chk.conformance["mismatches"] += 1
            chk.harness_errors.append("translator validation: %s real=%r symbolic=%r" % (vs, real, sym))
            if chk.conformance["mismatches"] > 3:
                return


def task_label(t):
    label = "mv=" + "".join(str(x) for x in t[0])
    if len(t) > 1 and t[1] is not None:
        label += "[d4=%s]" % (t[1] if not isinstance(t[1], tuple) else "rest")
    return label


def main(pid="C02"):
    chk, feasible = C.guarded(enumerate_macrovectors, ()) if False else enumerate_macrovectors()
    chk.pid = pid
    from spec import cvss4_spec as S4

    nfeasible = len(feasible)
    tasks = []
    for d in feasible:
        if S4.EQ4_DEPTH[d[3]] * S4.EQ36_DEPTH[(d[2], d[5])] >= 35:
            # None: no highest-severity vector qualifies (must be infeasible; covered by the VC
            # in each sub-fork); distances 0 .. depth
            ks = list(range(0, S4.EQ4_DEPTH[d[3]] + 3))
            for k in ks:
                tasks.append((d, k))
            tasks.append((d, ("rest", ks)))
        else:
            tasks.append((d,))
    all_tasks = list(tasks)
    skipped_heavy = 0
    if C.tier() == "quick" and not os.environ.get("VERIF_C02_ALL"):
        # the complete run costs about 25 minutes on 14 cores (thorough tier).  The check run on
        # every change keeps the table lemmas complete and executes a seeded sample of the fork
        # tasks, chosen with the per-task costs measured in the last complete run
        # (harness/c02_costs.json): tasks above 90 s are left to the thorough tier, the rest is
        # shuffled by the seed and taken up to a fixed total of estimated CPU seconds.
        import json
        import random

        try:
            costs = json.load(open(os.path.join(os.path.dirname(os.path.abspath(__file__)), "c02_costs.json")))
        except Exception:  # noqa: BLE001
            costs = {}
        rng = random.Random(C.seed())
        order = list(tasks)
        rng.shuffle(order)
        budget = float(os.environ.get("VERIF_C02_BUDGET_S", "5500"))
        picked, spent = [], 0.0
        for t in order:
            c = costs.get(task_label(t), 4.0) + 2.5
            if c > 90:
                skipped_heavy += 1
                continue
            if spent + c > budget:
                continue
            picked.append(t)
            spent += c
        tasks = sorted(picked, key=lambda t: -costs.get(task_label(t), 4.0))
    chk.extra["fork_tasks_total"] = len(all_tasks)
    chk.extra["fork_tasks_left_to_thorough_tier_as_too_costly"] = skipped_heavy
    chk.extra["fork_tasks"] = len(tasks)
    for r in C.run_named_tasks("harness.tables4", [("task_tables", (0,))]):
        chk.absorb_dict(r)
    # tasks measured above 200 s need several GB: heavy slots (see run_named_tasks); costly first
    try:
        import json as _json

        _costs = _json.load(open(os.path.join(os.path.dirname(os.path.abspath(__file__)), "c02_costs.json")))
    except Exception:  # noqa: BLE001
        _costs = {}
    tasks = sorted(tasks, key=lambda t: -_costs.get(task_label(t), 4.0))
    heavy = {i for i, t in enumerate(tasks) if _costs.get(task_label(t), 0) > 200}
    procs = None
    if len(tasks) == len(all_tasks):
        # complete run: the largest sub-forks need 10+ GB each (more with the thorough tier's 4096
        # patterns); two of them at a time, 12 workers in all
        os.environ.setdefault("VERIF_HEAVY_SLOTS", "2")
        os.environ.setdefault("VERIF_TASK_MEM_GB_HEAVY", "18")
        procs = min(12, int(os.environ.get("VERIF_PROCS", "14")))
    results = C.run_tasks(fork, tasks, procs=procs, heavy=heavy)
    for r in results:
        chk.absorb_dict(r)
    chk.extra["macrovectors_feasible"] = nfeasible
    chk.input_model = (
        "M-ASSIGN over all 32 metrics of v4.0 (the six supplemental metrics included); the real "
        "constructor runs on the canonical-order structured vector string; case split over the %d feasible "
        "macrovectors (feasibility and exhaustiveness of the split solver-decided); in each fork the fork "
        "condition is asserted in the solver and simulation patterns are sampled from its models." % nfeasible
    )
    if len(tasks) == len(all_tasks):
        chk.bounds = ["none on the domain: all assignments of all 32 metrics (all X / override spellings, all supplemental values) are covered symbolically"]
        chk.outside = ["non-canonical field order (C05)", "strings outside the grammar (C04)"]
    else:
        mvs = sorted({"".join(str(x) for x in t[0]) for t in tasks})
        chk.bounds = ["quick tier: the table lemmas (lookup table = official table, MAX_COMPOSED / MAX_SEVERITY = derived from the EQ definitions) and the case split are complete; the constructor is executed in a seeded sample of %d of the %d fork tasks "
                      "(seed %s; they touch %d of the %d macrovectors), in each of them for all assignments of all 32 metrics compatible with the fork; %d tasks measured above 90 s are left to the thorough tier, which runs all %d"
                      % (len(tasks), len(all_tasks), C.seed(), len(mvs), nfeasible, skipped_heavy, len(all_tasks))]
        chk.outside = ["quick tier: the scoring algorithm on the assignments of the %d fork tasks not in this run's sample" % (len(all_tasks) - len(tasks)), "non-canonical field order (C05)", "strings outside the grammar (C04)"]
    chk.assumptions = [
        "pysymex interprets the Python subset faithfully (validated against the real library on simulation patterns in every fork)",
        "highest-severity vectors and depths of the oracle are re-derived in every run from the EQ definitions (harness/tables4.py: Pareto-maximal members, largest distance + 1) and compared with the oracle's typed tables and with MAX_COMPOSED / MAX_SEVERITY of the current source",
        "the 270 lookup scores in /verif/spec/cvss4_lookup.py are a pinned copy of the pinned commit's table (no independent derivation exists); everything else in the oracle is typed from the specification, in exact rational arithmetic",
        "float arithmetic at the leaves is CPython's own (the claim includes that float + EPSILON + half-up equals exact half-up)",
    ]
    C.finish(chk)


if __name__ == "__main__":
    main()
